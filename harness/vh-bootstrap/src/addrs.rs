//! Generated domain of C18: configurations, multiaddress shapes over a small pool of peers, cache
//! files in the real on-disk format (with `last_seen` moved into the past and generated counters),
//! and the harness's own reader of the raw JSON on disk.

use ant_bootstrap::{BootstrapAddr, BootstrapCacheConfig};
use libp2p::{multiaddr::Protocol, Multiaddr, PeerId};
use proptest::prelude::*;
use serde::{Deserialize, Serialize};
use serde_json::{json, Value};
use std::borrow::Cow;
use std::collections::{BTreeMap, BTreeSet};
use std::net::{Ipv4Addr, Ipv6Addr};
use std::path::{Path, PathBuf};
use std::time::{Duration, SystemTime, UNIX_EPOCH};
use vh_core::pick_idx;

/// distance kept from the exact expiry instant (the exact boundary is not asserted, DESIGN §4)
pub const GUARD_S: i64 = 300;
/// counters above this are "foreign": merge arithmetic on them is not part of any no-loss claim
pub const SANE_COUNTER: u64 = 1_000_000;
/// slots per pool peer
pub const SLOTS: usize = 4;
/// peers that only ever appear in planted files (pool indices n_peers .. n_peers+FILE_ONLY)
pub const FILE_ONLY_PEERS: usize = 3;

// ------------------------------------------------------------------------------------------------
// configuration
// ------------------------------------------------------------------------------------------------

#[derive(Clone, Debug, Serialize, Deserialize)]
pub struct Cfg {
    /// 1..=6
    pub max_peers: usize,
    /// 1..=3
    pub max_addrs: usize,
    /// 1 or 24
    pub expiry_h: u64,
}

impl Cfg {
    pub fn expiry_s(&self) -> i64 {
        (self.expiry_h.max(1) * 3600) as i64
    }
    pub fn real(&self, path: &Path) -> BootstrapCacheConfig {
        BootstrapCacheConfig::empty()
            .with_cache_path(path)
            .with_max_peers(self.max_peers.max(1))
            .with_addrs_per_peer(self.max_addrs.max(1))
            .with_addr_expiry_duration(Duration::from_secs(self.expiry_s() as u64))
    }
}

pub fn cfg_strategy() -> BoxedStrategy<Cfg> {
    (1usize..=6, 1usize..=3, prop_oneof![Just(1u64), Just(24u64)])
        .prop_map(|(max_peers, max_addrs, expiry_h)| Cfg {
            max_peers,
            max_addrs,
            expiry_h,
        })
        .boxed()
}

/// Private directory per case. tmpfs when available (every flush fsyncs; on a disk that dominates
/// the run time and adds nothing to the single-threaded sections).
pub fn tmp_base(prefer_disk: bool) -> PathBuf {
    if let Some(p) = std::env::var_os("VERIF_TMP") {
        return PathBuf::from(p);
    }
    let shm = Path::new("/dev/shm");
    if !prefer_disk && shm.is_dir() {
        return shm.to_path_buf();
    }
    std::env::temp_dir()
}

pub fn case_dir(prefer_disk: bool) -> tempfile::TempDir {
    tempfile::Builder::new()
        .prefix("vh-c18-")
        .tempdir_in(tmp_base(prefer_disk))
        .or_else(|_| tempfile::Builder::new().prefix("vh-c18-").tempdir())
        .expect("cannot create a temp dir")
}

// ------------------------------------------------------------------------------------------------
// peers and multiaddress shapes
// ------------------------------------------------------------------------------------------------

/// Peer id of pool peer `i`: an identity multihash over a protobuf-framed 32-byte "ed25519 key"
/// derived from the small integer (prints as 12D3KooW…; no key material is needed here).
pub fn peer_id(i: usize) -> PeerId {
    let mut b = vec![0x00u8, 0x24, 0x08, 0x01, 0x12, 0x20];
    let mut x = vh_core::splitmix64(0xC18_0000u64 + i as u64);
    for _ in 0..4 {
        x = vh_core::splitmix64(x);
        b.extend_from_slice(&x.to_le_bytes());
    }
    PeerId::from_bytes(&b).expect("identity multihash peer id")
}

#[derive(Clone, Copy, Debug, Serialize, Deserialize, PartialEq, Eq, Hash)]
pub enum Shape {
    // dialable and carrying a peer id
    QuicP2p,
    UdpP2p,
    TcpP2p,
    WsP2p,
    WsPathP2p,
    // no peer id
    Quic,
    Tcp,
    Ws,
    // extra layers
    WssP2p,
    TlsWsP2p,
    UdpWsP2p,
    QuicDraftP2p,
    WebrtcP2p,
    // not ip4
    Ip6QuicP2p,
    Ip6TcpP2p,
    Dns4QuicP2p,
    DnsTcpP2p,
    MemoryP2p,
    // relay
    Circuit,
    CircuitNoTarget,
    // duplicated / reordered protocols
    DupIp,
    DupPort,
    TcpThenUdp,
    UdpThenTcp,
    DupP2p,
    P2pFirst,
    // fragments
    OnlyP2p,
    IpP2p,
    Empty,
}

pub const CANONICAL: [Shape; 4] = [Shape::QuicP2p, Shape::UdpP2p, Shape::TcpP2p, Shape::WsP2p];

const ODD_SHAPES: [Shape; 24] = [
    Shape::Quic,
    Shape::Tcp,
    Shape::Ws,
    Shape::WssP2p,
    Shape::TlsWsP2p,
    Shape::UdpWsP2p,
    Shape::QuicDraftP2p,
    Shape::WebrtcP2p,
    Shape::Ip6QuicP2p,
    Shape::Ip6TcpP2p,
    Shape::Dns4QuicP2p,
    Shape::DnsTcpP2p,
    Shape::MemoryP2p,
    Shape::Circuit,
    Shape::CircuitNoTarget,
    Shape::DupIp,
    Shape::DupPort,
    Shape::TcpThenUdp,
    Shape::UdpThenTcp,
    Shape::DupP2p,
    Shape::P2pFirst,
    Shape::OnlyP2p,
    Shape::IpP2p,
    Shape::Empty,
];

pub fn shape_strategy() -> BoxedStrategy<Shape> {
    prop_oneof![
        28 => Just(Shape::QuicP2p),
        8 => Just(Shape::UdpP2p),
        12 => Just(Shape::TcpP2p),
        9 => Just(Shape::WsP2p),
        3 => Just(Shape::WsPathP2p),
        40 => proptest::sample::select(ODD_SHAPES.to_vec()),
    ]
    .boxed()
}

/// The multiaddress of shape `shape` for pool address (peer `p`, slot `s`).
pub fn build_addr(shape: Shape, p: usize, s: usize, n_pool: usize) -> Multiaddr {
    let port = 4000 + (p as u16) * 16 + s as u16;
    let ip = Protocol::Ip4(Ipv4Addr::new(10, 0, p as u8, s as u8 + 1));
    let ip_b = Protocol::Ip4(Ipv4Addr::new(10, 1, p as u8, s as u8 + 1));
    let ip6 = Protocol::Ip6(Ipv6Addr::new(0xfd00, 0, 0, 0, 0, 0, p as u16, s as u16 + 1));
    let udp = Protocol::Udp(port);
    let tcp = Protocol::Tcp(port);
    let id = Protocol::P2p(peer_id(p));
    let neighbour = if p + 1 < n_pool { p + 1 } else { 0 };
    let other = Protocol::P2p(peer_id(neighbour));
    let ws = || Protocol::Ws(Cow::Borrowed("/"));
    let host = format!("n{p}s{s}.example.org");
    let v: Vec<Protocol> = match shape {
        Shape::QuicP2p => vec![ip, udp, Protocol::QuicV1, id],
        Shape::UdpP2p => vec![ip, udp, id],
        Shape::TcpP2p => vec![ip, tcp, id],
        Shape::WsP2p => vec![ip, tcp, ws(), id],
        Shape::WsPathP2p => vec![ip, tcp, Protocol::Ws(Cow::Borrowed("/rpc/v1")), id],
        Shape::Quic => vec![ip, udp, Protocol::QuicV1],
        Shape::Tcp => vec![ip, tcp],
        Shape::Ws => vec![ip, tcp, ws()],
        Shape::WssP2p => vec![ip, tcp, Protocol::Wss(Cow::Borrowed("/")), id],
        Shape::TlsWsP2p => vec![ip, tcp, Protocol::Tls, ws(), id],
        Shape::UdpWsP2p => vec![ip, udp, ws(), id],
        Shape::QuicDraftP2p => vec![ip, udp, Protocol::Quic, id],
        Shape::WebrtcP2p => vec![ip, udp, Protocol::WebRTCDirect, id],
        Shape::Ip6QuicP2p => vec![ip6, udp, Protocol::QuicV1, id],
        Shape::Ip6TcpP2p => vec![ip6, tcp, id],
        Shape::Dns4QuicP2p => vec![Protocol::Dns4(Cow::Owned(host)), udp, Protocol::QuicV1, id],
        Shape::DnsTcpP2p => vec![Protocol::Dns(Cow::Owned(host)), tcp, id],
        Shape::MemoryP2p => vec![Protocol::Memory(port as u64), id],
        Shape::Circuit => vec![ip, udp, Protocol::QuicV1, other, Protocol::P2pCircuit, id],
        Shape::CircuitNoTarget => vec![ip, udp, Protocol::QuicV1, other, Protocol::P2pCircuit],
        Shape::DupIp => vec![ip, ip_b, udp, Protocol::QuicV1, id],
        Shape::DupPort => vec![ip, udp, Protocol::Udp(port + 1000), Protocol::QuicV1, id],
        Shape::TcpThenUdp => vec![ip, tcp, Protocol::Udp(port + 1000), Protocol::QuicV1, id],
        Shape::UdpThenTcp => vec![ip, udp, Protocol::QuicV1, Protocol::Tcp(port + 1000), ws(), id],
        Shape::DupP2p => vec![ip, udp, Protocol::QuicV1, id, other],
        Shape::P2pFirst => vec![id, ip, udp, Protocol::QuicV1],
        Shape::OnlyP2p => vec![id],
        Shape::IpP2p => vec![ip, id],
        Shape::Empty => vec![],
    };
    let mut m = Multiaddr::empty();
    for p in v {
        m.push(p);
    }
    m
}

pub fn peer_of(addr: &Multiaddr) -> Option<PeerId> {
    addr.iter().find_map(|p| match p {
        Protocol::P2p(id) => Some(id),
        _ => None,
    })
}

/// "Dialable and carrying a peer id", read off the statement: a host, a transport port, exactly one
/// peer id which comes last, no relay hop. (The design additionally asks for a fixed point of
/// `craft_valid_multiaddr`, checked separately.)
pub fn structurally_dialable(addr: &Multiaddr) -> bool {
    let ps: Vec<Protocol> = addr.iter().collect();
    let host_first = matches!(
        ps.first(),
        Some(Protocol::Ip4(_) | Protocol::Ip6(_) | Protocol::Dns(_) | Protocol::Dns4(_) | Protocol::Dns6(_))
    );
    let transport = ps.iter().any(|p| matches!(p, Protocol::Udp(_) | Protocol::Tcp(_)));
    let p2p_count = ps.iter().filter(|p| matches!(p, Protocol::P2p(_))).count();
    let p2p_last = matches!(ps.last(), Some(Protocol::P2p(_)));
    let circuit = ps.iter().any(|p| matches!(p, Protocol::P2pCircuit));
    host_first && transport && p2p_count == 1 && p2p_last && !circuit
}

// ------------------------------------------------------------------------------------------------
// observed entries
// ------------------------------------------------------------------------------------------------

/// One address as seen in memory, in a `load_cache_data` result, or in the raw file.
#[derive(Clone, Debug, PartialEq, Eq, PartialOrd, Ord, Hash)]
pub struct Ent {
    /// peer the address is filed under (map key); for the in-memory store the id inside the address
    pub key: String,
    pub addr: String,
    pub succ: u64,
    pub fail: u64,
    /// seconds between `last_seen` and the observation (negative: `last_seen` in the future)
    pub age_s: i64,
}

pub fn age_of(last_seen: SystemTime, now: SystemTime) -> i64 {
    match now.duration_since(last_seen) {
        Ok(d) => d.as_secs().min(i64::MAX as u64) as i64,
        Err(e) => -(e.duration().as_secs().min(i64::MAX as u64 - 1) as i64) - 1,
    }
}

pub fn ent_of(key: Option<&PeerId>, a: &BootstrapAddr, now: SystemTime) -> Ent {
    let key = match key {
        Some(k) => k.to_string(),
        None => peer_of(&a.addr).map(|p| p.to_string()).unwrap_or_else(|| "<no peer id>".into()),
    };
    Ent {
        key,
        addr: a.addr.to_string(),
        succ: a.success_count as u64,
        fail: a.failure_count as u64,
        age_s: age_of(a.last_seen, now),
    }
}

#[derive(Clone, Debug, Default)]
pub struct Snap {
    /// number of peers the container reports (may exceed the peers seen in `ents` if a peer has no address)
    pub peers: usize,
    pub ents: Vec<Ent>,
    /// peers without any address (raw file only; the real code never writes one)
    pub empty_keys: Vec<String>,
}

impl Snap {
    pub fn ids(&self) -> BTreeSet<(String, String)> {
        self.ents.iter().map(|e| (e.key.clone(), e.addr.clone())).collect()
    }
    pub fn by_peer(&self) -> BTreeMap<String, Vec<&Ent>> {
        let mut m: BTreeMap<String, Vec<&Ent>> = BTreeMap::new();
        for e in &self.ents {
            m.entry(e.key.clone()).or_default().push(e);
        }
        m
    }
    pub fn get(&self, key: &str, addr: &str) -> Option<&Ent> {
        self.ents.iter().find(|e| e.key == key && e.addr == addr)
    }
    pub fn brief(&self) -> String {
        let v: Vec<String> = self
            .ents
            .iter()
            .map(|e| format!("{}…|{} s{} f{} age{}s", &e.key[e.key.len().saturating_sub(6)..], e.addr_short(), e.succ, e.fail, e.age_s))
            .collect();
        format!("[{} peers] {}", self.peers, v.join("; "))
    }
}

impl Ent {
    pub fn addr_short(&self) -> String {
        match self.addr.find("/p2p/") {
            Some(i) => {
                let tail = &self.addr[i + 5..];
                format!("{}/p2p/…{}", &self.addr[..i], &tail[tail.len().saturating_sub(6)..])
            }
            None => self.addr.clone(),
        }
    }
}

// ------------------------------------------------------------------------------------------------
// the raw file, read by the harness (independent of CacheData's Deserialize)
// ------------------------------------------------------------------------------------------------

fn sys_time_field(v: &Value) -> Result<(u64, u64), String> {
    let o = v.as_object().ok_or("time is not an object")?;
    let s = o.get("secs_since_epoch").and_then(|x| x.as_u64()).ok_or("secs_since_epoch")?;
    let n = o.get("nanos_since_epoch").and_then(|x| x.as_u64()).ok_or("nanos_since_epoch")?;
    if o.len() != 2 {
        return Err("extra field in time".into());
    }
    // stricter than any reader needs to be: a time no clock can have written is "foreign"
    if s > (1u64 << 40) || n >= 1_000_000_000 {
        return Err("time out of range".into());
    }
    Ok((s, n))
}

/// Parse the documented on-disk format: `{"peers": {"<peer id>": [{"addr", "success_count",
/// "failure_count", "last_seen": {"secs_since_epoch","nanos_since_epoch"}}…]}, "last_updated",
/// "network_version"}`.
pub fn parse_raw(text: &str, now: SystemTime) -> Result<Snap, String> {
    let v: Value = serde_json::from_str(text).map_err(|e| format!("not JSON: {e}"))?;
    let o = v.as_object().ok_or("top level is not an object")?;
    let peers = o.get("peers").and_then(|p| p.as_object()).ok_or("no `peers` object")?;
    sys_time_field(o.get("last_updated").ok_or("no last_updated")?)?;
    o.get("network_version").and_then(|x| x.as_str()).ok_or("no network_version")?;
    let now_s = now.duration_since(UNIX_EPOCH).map(|d| d.as_secs()).unwrap_or(0) as i128;
    let mut snap = Snap {
        peers: peers.len(),
        ents: vec![],
        empty_keys: vec![],
    };
    for (key, list) in peers {
        let list = list.as_array().ok_or("peer value is not an array")?;
        if list.is_empty() {
            snap.empty_keys.push(key.clone());
        }
        for a in list {
            let a = a.as_object().ok_or("addr entry is not an object")?;
            let addr = a.get("addr").and_then(|x| x.as_str()).ok_or("addr")?;
            let succ = a.get("success_count").and_then(|x| x.as_u64()).ok_or("success_count")?;
            let fail = a.get("failure_count").and_then(|x| x.as_u64()).ok_or("failure_count")?;
            let (secs, nanos) = sys_time_field(a.get("last_seen").ok_or("last_seen")?)?;
            if succ > u32::MAX as u64 || fail > u32::MAX as u64 || nanos > u32::MAX as u64 {
                return Err("number out of range".into());
            }
            let age = (now_s - secs as i128).clamp(i64::MIN as i128 + 1, i64::MAX as i128) as i64;
            snap.ents.push(Ent {
                key: key.clone(),
                addr: addr.to_string(),
                succ,
                fail,
                age_s: age,
            });
        }
    }
    snap.ents.sort();
    Ok(snap)
}

/// What is wrong with entry `e` as a member of a file the real code could have written
/// (None = nothing): used to decide whether file-side claims apply ("taint").
pub fn entry_dirt(e: &Ent) -> Option<&'static str> {
    let Ok(addr) = e.addr.parse::<Multiaddr>() else {
        return Some("addr_unparseable");
    };
    if addr.to_string() != e.addr {
        // e.g. "/tcp/001": parses, but no writer prints it that way
        return Some("addr_text_not_canonical");
    }
    if !structurally_dialable(&addr) {
        return Some("addr_not_dialable");
    }
    if ant_bootstrap::craft_valid_multiaddr(&addr, false).as_ref() != Some(&addr) {
        return Some("addr_not_crafted");
    }
    if peer_of(&addr).map(|p| p.to_string()).as_deref() != Some(e.key.as_str()) {
        return Some("key_mismatch");
    }
    if e.succ > SANE_COUNTER || e.fail > SANE_COUNTER {
        return Some("huge_counter");
    }
    if e.age_s < 0 {
        return Some("future_last_seen");
    }
    None
}

pub fn snap_dirt(s: &Snap) -> Option<&'static str> {
    for e in &s.ents {
        if let Some(d) = entry_dirt(e) {
            return Some(d);
        }
    }
    if s.ids().len() != s.ents.len() {
        return Some("duplicate_addr");
    }
    if !s.empty_keys.is_empty() {
        return Some("peer_without_addrs");
    }
    None
}

// ------------------------------------------------------------------------------------------------
// planted files
// ------------------------------------------------------------------------------------------------

#[derive(Clone, Debug, Serialize, Deserialize, PartialEq, Eq)]
pub enum Age {
    /// 10 s .. expiry-600 s ago
    Fresh(u16),
    /// expiry+600 s .. 3*expiry ago
    Expired(u16),
    /// 1970-01-01
    Epoch,
    /// in the future (foreign)
    Future(u16),
    /// seconds that overflow SystemTime (foreign)
    HugeSecs,
    /// nanos >= 10^9 (foreign)
    BadNanos,
    /// the last seconds a SystemTime can hold (i64::MAX minus 0, 1 or 36500 days): parses, lies in the
    /// future (foreign), and overflows as soon as anything is added to it
    NearMaxSecs(u8),
    /// one of four fixed fresh instants (whole seconds): many entries share an identical `last_seen`,
    /// as in a file written in one go or by a coarse clock
    FreshTie(u8),
}

#[derive(Clone, Debug, Serialize, Deserialize, PartialEq, Eq)]
pub enum KeyMode {
    Own,
    /// filed under a different peer's id (foreign)
    Other,
    /// key is not a peer id (foreign)
    Garbage,
}

#[derive(Clone, Debug, Serialize, Deserialize)]
pub struct PlantAddr {
    pub slot: u16,
    /// 0..=3 canonical shapes; 4.. foreign shapes (see `plant_addr_text`)
    pub form: u8,
    pub succ: u64,
    pub fail: u64,
    pub age: Age,
}

#[derive(Clone, Debug, Serialize, Deserialize)]
pub struct PlantPeer {
    pub peer: u16,
    pub key: KeyMode,
    pub addrs: Vec<PlantAddr>,
}

#[derive(Clone, Debug, Serialize, Deserialize)]
pub struct PlantedFile {
    pub peers: Vec<PlantPeer>,
    /// false: a different network_version string
    pub own_version: bool,
}

fn plant_addr_text(form: u8, p: usize, s: usize, n_pool: usize) -> String {
    match form {
        0..=3 => build_addr(CANONICAL[form as usize], p, s, n_pool).to_string(),
        4 => build_addr(Shape::Quic, p, s, n_pool).to_string(),
        5 => build_addr(Shape::Ip6QuicP2p, p, s, n_pool).to_string(),
        6 => build_addr(Shape::Circuit, p, s, n_pool).to_string(),
        7 => build_addr(Shape::DnsTcpP2p, p, s, n_pool).to_string(),
        8 => build_addr(Shape::DupIp, p, s, n_pool).to_string(),
        9 => build_addr(Shape::Empty, p, s, n_pool).to_string(),
        10 => build_addr(Shape::WsPathP2p, p, s, n_pool).to_string(),
        _ => "this is not a multiaddr".to_string(),
    }
}

/// Render `f` as the JSON the real code writes. Peers are de-duplicated by pool index and
/// addresses by text (first wins), as a JSON object / the store's own list would.
pub fn render_planted(f: &PlantedFile, cfg: &Cfg, n_peers: usize, now: SystemTime) -> String {
    let n_pool = n_peers + FILE_ONLY_PEERS;
    let now_s = now.duration_since(UNIX_EPOCH).map(|d| d.as_secs()).unwrap_or(0);
    let exp = cfg.expiry_s() as u64;
    let mut peers = serde_json::Map::new();
    for pp in &f.peers {
        let p = pick_idx(pp.peer, n_pool);
        let key = match pp.key {
            KeyMode::Own => peer_id(p).to_string(),
            KeyMode::Other => peer_id(p + 50).to_string(),
            KeyMode::Garbage => format!("peer-{p}"),
        };
        if peers.contains_key(&key) {
            continue;
        }
        let mut seen = BTreeSet::new();
        let mut list = vec![];
        for a in &pp.addrs {
            let s = pick_idx(a.slot, SLOTS);
            let text = plant_addr_text(a.form, p, s, n_pool);
            if !seen.insert(text.clone()) && a.form <= 3 {
                continue;
            }
            let (secs, nanos): (u64, u64) = match a.age {
                Age::Fresh(x) => (now_s - 10 - (x as u64 * (exp - 610)) / 65536, 123_456_789),
                Age::Expired(x) => (now_s - (exp + 600 + (x as u64 * 2 * exp) / 65536), 5),
                Age::Epoch => (0, 0),
                Age::Future(x) => (now_s + 60 + x as u64 * 10, 0),
                Age::HugeSecs => (u64::MAX, 999_999_999),
                Age::BadNanos => (now_s - 30, 4_000_000_000),
                Age::FreshTie(k) => (now_s - 100 - 60 * (k % 4) as u64, 0),
                Age::NearMaxSecs(k) => (i64::MAX as u64 - [0u64, 86_400, 86_399, 36_500 * 86_400][(k % 4) as usize], 0),
            };
            list.push(json!({
                "addr": text,
                "success_count": a.succ,
                "failure_count": a.fail,
                "last_seen": {"secs_since_epoch": secs, "nanos_since_epoch": nanos},
            }));
        }
        peers.insert(key, Value::Array(list));
    }
    let version = if f.own_version {
        ant_bootstrap::get_network_version()
    } else {
        "99_9.9.9".to_string()
    };
    let doc = json!({
        "peers": Value::Object(peers),
        "last_updated": {"secs_since_epoch": now_s - 7, "nanos_since_epoch": 1},
        "network_version": version,
    });
    let mut s = serde_json::to_string_pretty(&doc).expect("json");
    s.push('\n');
    s
}

fn small_counters() -> BoxedStrategy<(u64, u64)> {
    prop_oneof![
        // fresh from add_addr
        4 => Just((1u64, 0u64)),
        // reliable
        4 => (0u64..=6).prop_flat_map(|f| (f..=f + 6, Just(f))),
        // equal counts: still reliable by the statement ("more failures than successes" is false)
        2 => (0u64..=6).prop_map(|f| (f, f)),
        // unreliable
        3 => (0u64..=5).prop_flat_map(|s| (Just(s), s + 1..=s + 6)),
        1 => (0u64..=1000, 0u64..=1000),
    ]
    .boxed()
}

fn clean_age() -> BoxedStrategy<Age> {
    prop_oneof![
        6 => any::<u16>().prop_map(Age::Fresh),
        3 => any::<u16>().prop_map(Age::Expired),
        1 => Just(Age::Epoch),
        4 => (0u8..4).prop_map(Age::FreshTie),
    ]
    .boxed()
}

/// A file another node's real code could have left behind: crafted addresses filed under their own
/// peer id, small counters, `last_seen` in the past (possibly long past).
pub fn clean_file_strategy() -> BoxedStrategy<PlantedFile> {
    let addr = (any::<u16>(), 0u8..=3, small_counters(), clean_age()).prop_map(|(slot, form, (succ, fail), age)| PlantAddr {
        slot,
        form,
        succ,
        fail,
        age,
    });
    let peer = (any::<u16>(), proptest::collection::vec(addr, 1..=5)).prop_map(|(peer, addrs)| PlantPeer {
        peer,
        key: KeyMode::Own,
        addrs,
    });
    (proptest::collection::vec(peer, 0..=8), proptest::bool::weighted(0.9))
        .prop_map(|(peers, own_version)| PlantedFile { peers, own_version })
        .boxed()
}

pub fn huge_counters() -> BoxedStrategy<(u64, u64)> {
    let edge = prop_oneof![
        Just(u32::MAX as u64),
        Just(u32::MAX as u64 - 1),
        Just(1u64 << 31),
        Just((1u64 << 31) - 1),
        Just((1u64 << 31) + 1),
        (0u64..=u32::MAX as u64),
        0u64..=3,
    ];
    (edge.clone(), edge).boxed()
}

/// Right schema, clean addresses, counters up to u32::MAX.
pub fn huge_file_strategy() -> BoxedStrategy<PlantedFile> {
    let addr = (any::<u16>(), 0u8..=3, prop_oneof![3 => huge_counters(), 1 => small_counters()], any::<u16>()).prop_map(
        |(slot, form, (succ, fail), age)| PlantAddr {
            slot,
            form,
            succ,
            fail,
            age: Age::Fresh(age),
        },
    );
    let peer = (any::<u16>(), proptest::collection::vec(addr, 1..=4)).prop_map(|(peer, addrs)| PlantPeer {
        peer,
        key: KeyMode::Own,
        addrs,
    });
    proptest::collection::vec(peer, 1..=4)
        .prop_map(|peers| PlantedFile {
            peers,
            own_version: true,
        })
        .boxed()
}

/// Right schema, but with content no `add_addr` could have produced.
pub fn dirty_file_strategy() -> BoxedStrategy<PlantedFile> {
    let age = prop_oneof![
        5 => any::<u16>().prop_map(Age::Fresh),
        2 => any::<u16>().prop_map(Age::Expired),
        1 => Just(Age::Epoch),
        3 => (0u8..4).prop_map(Age::FreshTie),
        1 => (0u8..4).prop_map(Age::NearMaxSecs),
        2 => any::<u16>().prop_map(Age::Future),
        1 => Just(Age::HugeSecs),
        1 => Just(Age::BadNanos),
    ];
    let counters = prop_oneof![
        6 => small_counters(),
        2 => huge_counters(),
        1 => Just((u32::MAX as u64 + 1, 0u64)),
    ];
    let addr = (any::<u16>(), prop_oneof![3 => 0u8..=3, 2 => 4u8..=11], counters, age).prop_map(|(slot, form, (succ, fail), age)| PlantAddr {
        slot,
        form,
        succ,
        fail,
        age,
    });
    let key = prop_oneof![6 => Just(KeyMode::Own), 2 => Just(KeyMode::Other), 1 => Just(KeyMode::Garbage)];
    let peer = (any::<u16>(), key, proptest::collection::vec(addr, 0..=5)).prop_map(|(peer, key, addrs)| PlantPeer { peer, key, addrs });
    (proptest::collection::vec(peer, 0..=6), any::<bool>())
        .prop_map(|(peers, own_version)| PlantedFile { peers, own_version })
        .boxed()
}
