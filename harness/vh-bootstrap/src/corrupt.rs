//! Section "corrupt": one damaged / foreign file per case. The loader may say Ok or Err but must
//! not crash; the start-up reader must not crash; the next flush must leave a loadable file, and if
//! the loader rejected the old file the new file holds exactly what memory held ("ignored").
//! Manual section "prefixes": every byte prefix of fixed valid files (exhaustive).

use crate::addrs::*;
use crate::history::{Prov, World};
use crate::oracle::*;
use ant_bootstrap::BootstrapCacheStore;
use proptest::prelude::*;
use serde::{Deserialize, Serialize};
use serde_json::json;
use std::time::SystemTime;
use vh_core::{pick_idx, Ctx};

#[derive(Clone, Debug, Serialize, Deserialize)]
pub enum CorruptFile {
    /// arbitrary bytes (possibly not UTF-8, possibly empty)
    Bytes(Vec<u8>),
    /// a valid file cut at a generated position
    Truncated { file: PlantedFile, cut: u16 },
    /// a valid file with one byte replaced (kind 0), inserted (1) or deleted (2)
    Mutated { file: PlantedFile, pos: u16, kind: u8, byte: u8 },
    /// JSON of another shape (catalogue index)
    Foreign(u8),
    /// right schema, content no add_addr can produce (no peer id, ip6, relay, wrong key, odd times)
    Dirty(PlantedFile),
    /// right schema, clean addresses, counters up to u32::MAX
    Huge(PlantedFile),
}

const FOREIGN: [&str; 22] = [
    "",
    " ",
    "null",
    "true",
    "0",
    "\"bootstrap\"",
    "[]",
    "{}",
    "{\"peers\":{}}",
    "{\"peers\":[],\"last_updated\":{\"secs_since_epoch\":1,\"nanos_since_epoch\":0},\"network_version\":\"1\"}",
    "{\"peers\":{},\"last_updated\":0,\"network_version\":\"1\"}",
    "{\"peers\":{},\"last_updated\":{\"secs_since_epoch\":1,\"nanos_since_epoch\":0},\"network_version\":1}",
    "{\"peers\":{},\"last_updated\":{\"secs_since_epoch\":-1,\"nanos_since_epoch\":0},\"network_version\":\"1\"}",
    "{\"peers\":{},\"last_updated\":{\"secs_since_epoch\":18446744073709551615,\"nanos_since_epoch\":4294967295},\"network_version\":\"1\"}",
    "{\"peers\":{},\"last_updated\":{\"secs_since_epoch\":1e400,\"nanos_since_epoch\":0},\"network_version\":\"1\"}",
    // an older layout: one record per peer
    "{\"peers\":{\"12D3KooWRBhwfeP2Y4TCx1SM6s9rUoHhR5STiGwxBhgFRcw3UERE\":{\"addr\":\"/ip4/127.0.0.1/udp/8080/quic-v1/p2p/12D3KooWRBhwfeP2Y4TCx1SM6s9rUoHhR5STiGwxBhgFRcw3UERE\",\"success_count\":1,\"failure_count\":0,\"last_seen\":{\"secs_since_epoch\":1,\"nanos_since_epoch\":0}}},\"last_updated\":{\"secs_since_epoch\":1,\"nanos_since_epoch\":0},\"network_version\":\"1\"}",
    // a plain contact list
    "/ip4/127.0.0.1/udp/8080/quic-v1/p2p/12D3KooWRBhwfeP2Y4TCx1SM6s9rUoHhR5STiGwxBhgFRcw3UERE\n/ip4/127.0.0.1/udp/8081/quic-v1/p2p/12D3KooWD2aV1f3qkhggzEFaJ24CEFYkSdZF5RKoMLpU6CwExYV5\n",
    // valid empty cache
    "{\"peers\":{},\"last_updated\":{\"secs_since_epoch\":1,\"nanos_since_epoch\":0},\"network_version\":\"1\"}",
    // byte order mark in front of a valid empty cache
    "\u{feff}{\"peers\":{},\"last_updated\":{\"secs_since_epoch\":1,\"nanos_since_epoch\":0},\"network_version\":\"1\"}",
    // deep nesting (recursion limit of the JSON reader)
    "DEEP_ARRAY",
    "DEEP_OBJECT",
    // a long run of zeros as a node leaves after a crash during write
    "NULS",
];

impl CorruptFile {
    pub fn kind(&self) -> &'static str {
        match self {
            CorruptFile::Bytes(_) => "bytes",
            CorruptFile::Truncated { .. } => "truncated",
            CorruptFile::Mutated { .. } => "mutated",
            CorruptFile::Foreign(_) => "foreign_json",
            CorruptFile::Dirty(_) => "dirty_schema",
            CorruptFile::Huge(_) => "huge_counters",
        }
    }

    pub fn render(&self, cfg: &Cfg, n_peers: usize) -> Vec<u8> {
        let now = SystemTime::now();
        match self {
            CorruptFile::Bytes(b) => b.clone(),
            CorruptFile::Truncated { file, cut } => {
                let mut t = render_planted(file, cfg, n_peers, now).into_bytes();
                let n = pick_idx(*cut, t.len());
                t.truncate(n);
                t
            }
            CorruptFile::Mutated { file, pos, kind, byte } => {
                let mut t = render_planted(file, cfg, n_peers, now).into_bytes();
                let i = pick_idx(*pos, t.len());
                match kind {
                    0 => t[i] = *byte,
                    1 => t.insert(i, *byte),
                    _ => {
                        t.remove(i);
                    }
                }
                t
            }
            CorruptFile::Foreign(i) => match FOREIGN[(*i as usize).min(FOREIGN.len() - 1)] {
                "DEEP_ARRAY" => {
                    let mut s = "[".repeat(3000);
                    s.push_str(&"]".repeat(3000));
                    s.into_bytes()
                }
                "DEEP_OBJECT" => {
                    let mut s = "{\"peers\":".repeat(400);
                    s.push_str("{}");
                    s.push_str(&"}".repeat(400));
                    s.into_bytes()
                }
                "NULS" => vec![0u8; 4096],
                other => other.as_bytes().to_vec(),
            },
            CorruptFile::Dirty(f) | CorruptFile::Huge(f) => render_planted(f, cfg, n_peers, now).into_bytes(),
        }
    }
}

pub fn corrupt_strategy() -> BoxedStrategy<CorruptFile> {
    prop_oneof![
        2 => proptest::collection::vec(any::<u8>(), 0..48).prop_map(CorruptFile::Bytes),
        3 => (clean_file_strategy(), any::<u16>()).prop_map(|(file, cut)| CorruptFile::Truncated { file, cut }),
        3 => (clean_file_strategy(), any::<u16>(), 0u8..3, prop_oneof![any::<u8>(), proptest::sample::select(b"{}[]\":,0-9e.\\ \n\x00\xff".to_vec())])
            .prop_map(|(file, pos, kind, byte)| CorruptFile::Mutated { file, pos, kind, byte }),
        2 => (0u8..FOREIGN.len() as u8).prop_map(CorruptFile::Foreign),
        4 => dirty_file_strategy().prop_map(CorruptFile::Dirty),
        3 => huge_file_strategy().prop_map(CorruptFile::Huge),
    ]
    .boxed()
}

#[derive(Clone, Debug, Serialize, Deserialize)]
pub struct CorruptCase {
    pub cfg: Cfg,
    pub n_peers: u8,
    pub file: CorruptFile,
    /// canonical pool addresses (peer, slot, form) memory holds when the flush happens
    pub mem: Vec<(u16, u16, u8)>,
    pub with_cleanup: bool,
}

pub fn strategy() -> BoxedStrategy<CorruptCase> {
    (
        cfg_strategy(),
        3u8..=8,
        corrupt_strategy(),
        proptest::collection::vec((any::<u16>(), any::<u16>(), 0u8..=3), 0..=5),
        any::<bool>(),
    )
        .prop_map(|(cfg, n_peers, file, mem, with_cleanup)| CorruptCase {
            cfg,
            n_peers,
            file,
            mem,
            with_cleanup,
        })
        .boxed()
}

pub fn check(case: &CorruptCase, ctx: &mut Ctx) {
    let n_peers = (case.n_peers as usize).clamp(1, 8);
    let bytes = case.file.render(&case.cfg, n_peers);
    ctx.label(case.file.kind());
    run_bytes(ctx, &case.cfg, n_peers, &bytes, &case.mem, case.with_cleanup);
    ctx.canon = Some(format!(
        "{}|{:?}|{}|{:?}|{}",
        hex::encode(&bytes),
        case.mem,
        case.with_cleanup,
        (case.cfg.max_peers, case.cfg.max_addrs, case.cfg.expiry_h),
        n_peers
    ));
    ctx.sample = Some(json!({
        "kind": case.file.kind(),
        "file": String::from_utf8_lossy(&bytes[..bytes.len().min(200)]),
        "file_len": bytes.len(),
        "memory_addrs": case.mem.len(),
        "with_cleanup": case.with_cleanup,
    }));
}

/// The scenario shared by the generated section and the exhaustive prefix sweep.
pub fn run_bytes(ctx: &mut Ctx, cfg: &Cfg, n_peers: usize, bytes: &[u8], mem: &[(u16, u16, u8)], with_cleanup: bool) {
    let mut w = World::new(cfg, n_peers);
    let real_cfg = w.real_cfg.clone();
    let Some(Ok(mut store)) = guard(ctx, "BootstrapCacheStore::new", || BootstrapCacheStore::new(real_cfg)) else {
        ctx.fail("store:new_failed", "");
        return;
    };
    w.plant_bytes(bytes, Prov::Foreign);
    let (raw, dirt) = w.observe_file();
    // is it damaged at all? (a mutation inside whitespace, a cut at full length, … leave a real file)
    let intact = raw.is_some() && dirt.is_none();
    if intact {
        w.prov = Prov::Real;
        ctx.label("file_turned_out_intact");
    }

    // 1. loader and start-up reader: Ok or Err, no crash
    let real_cfg = w.real_cfg.clone();
    let Some(pre) = guard(ctx, "load_cache_data", || load(&real_cfg)) else { return };
    match &pre {
        Loaded::Ok(_) => ctx.label("loader_accepted"),
        Loaded::Err(_) => ctx.label("loader_rejected"),
        Loaded::NoFile => ctx.fail("load:file_reported_missing", ""),
    }
    let rejected = matches!(pre, Loaded::Err(_));
    if !w.do_load(ctx, "load") || !w.do_reader(ctx) {
        return;
    }

    // 2. a node with some fresh addresses flushes over it
    for (peer, slot, form) in mem {
        let p = pick_idx(*peer, n_peers);
        let s = pick_idx(*slot, SLOTS);
        let addr = build_addr(CANONICAL[(*form as usize).min(3)], p, s, n_peers);
        if guard(ctx, "add_addr", || store.add_addr(addr)).is_none() {
            return;
        }
    }
    let mem_snap = snap_store(&store);
    if !w.do_flush(ctx, &mut store, with_cleanup) {
        return;
    }
    // 3. "ignored": a rejected file contributes nothing and costs nothing
    if rejected {
        if let (Some(disk), _) = w.observe_file() {
            if disk.ids() != mem_snap.ids() {
                ctx.fail(
                    "corrupt:flush_over_rejected_file_differs_from_memory",
                    format!("memory: {} => disk: {}", mem_snap.brief(), disk.brief()),
                );
            }
        }
    }
    // 4. and the cache keeps working afterwards
    if !w.do_load(ctx, "reload") || !w.do_reader(ctx) {
        return;
    }
    // non-trivial: the file really was damaged / foreign, and memory had something to persist
    ctx.nontrivial_if(!intact && !mem_snap.ents.is_empty());
    ctx.label_if(rejected && !mem_snap.ents.is_empty(), "rejected_file_replaced_by_memory");
}

/// Fixed valid files for the exhaustive prefix sweep.
pub fn prefix_seed_files(cfg: &Cfg) -> Vec<Vec<u8>> {
    let mk = |peers: Vec<(u16, Vec<(u16, u8, u64, u64, Age)>)>| PlantedFile {
        peers: peers
            .into_iter()
            .map(|(peer, addrs)| PlantPeer {
                peer,
                key: KeyMode::Own,
                addrs: addrs
                    .into_iter()
                    .map(|(slot, form, succ, fail, age)| PlantAddr { slot, form, succ, fail, age })
                    .collect(),
            })
            .collect(),
        own_version: true,
    };
    let a = mk(vec![(0, vec![(0, 0, 1, 0, Age::Fresh(100))])]);
    let b = mk(vec![
        (0, vec![(0, 0, 3, 1, Age::Fresh(9000)), (20000, 2, 1, 0, Age::Fresh(3))]),
        (20000, vec![(0, 3, 2, 5, Age::Fresh(1)), (40000, 1, 7, 7, Age::Expired(5)), (20000, 2, 4, 4, Age::Fresh(30000))]),
        (40000, vec![(0, 0, 1, 0, Age::Epoch)]),
    ]);
    let now = SystemTime::now();
    vec![
        render_planted(&a, cfg, 4, now).into_bytes(),
        render_planted(&b, cfg, 4, now).into_bytes(),
    ]
}
