//! Manual section "stress": 2–6 OS threads, each with its own `BootstrapCacheStore` over one shared
//! cache path (as co-located nodes), loop `add_addr` + `sync_and_flush_to_disk`; a reader thread loops
//! `load_cache_data`. Work is fixed by iteration counts; the OS scheduler picks the interleavings.
//! Verdicts: a read that is neither Ok nor "no file yet" is a torn read; the final file must load.
//! Lost updates between writers are NOT judged (the statement claims a loadable file, not
//! serialisability), failing flushes are counted and reported only.

use crate::addrs::*;
use crate::oracle::*;
use ant_bootstrap::BootstrapCacheStore;
use serde::{Deserialize, Serialize};
use std::collections::BTreeSet;
use std::sync::atomic::{AtomicBool, AtomicU64, AtomicUsize, Ordering};
use std::sync::{Arc, Mutex};
use vh_core::Failure;

#[derive(Clone, Debug, Serialize, Deserialize)]
pub struct Round {
    pub writers: usize,
    pub iters: u32,
    pub adds_per_iter: u32,
    /// 0: always with clean-up (what the node does), 1: never, 2: alternating
    pub mode: u8,
    pub max_peers: usize,
    pub max_addrs: usize,
    /// cache file on the real disk (fsync is real) instead of tmpfs
    pub on_disk: bool,
}

#[derive(Default, Debug)]
pub struct Outcome {
    pub reads_ok: u64,
    pub reads_ok_concurrent: u64,
    pub reads_no_file: u64,
    pub flush_ok: u64,
    pub flush_err: u64,
    pub first_flush_err: Option<String>,
    pub leftover_files: u64,
    pub final_peers: usize,
    pub failures: Vec<Failure>,
}

fn writer_addr(w: usize, it: u32, k: u32) -> libp2p::Multiaddr {
    // two thirds private peers (file keeps growing until the limit), one third a small set of
    // peers shared by all writers (merges hit the same peer from several sides)
    let peer = if (it + k) % 3 == 0 {
        (it % 5) as usize
    } else {
        1000 + w * 100_000 + (it as usize) * 4 + k as usize
    };
    let shape = CANONICAL[(w + k as usize) % 4];
    // ip/port are distinct per (writer, iteration, k)
    let mut m = libp2p::Multiaddr::empty();
    use libp2p::multiaddr::Protocol;
    m.push(Protocol::Ip4(std::net::Ipv4Addr::new(10, (w + 1) as u8, (it >> 8) as u8, it as u8)));
    match shape {
        Shape::QuicP2p => {
            m.push(Protocol::Udp(5000 + k as u16));
            m.push(Protocol::QuicV1);
        }
        Shape::UdpP2p => m.push(Protocol::Udp(5000 + k as u16)),
        Shape::TcpP2p => m.push(Protocol::Tcp(5000 + k as u16)),
        _ => {
            m.push(Protocol::Tcp(5000 + k as u16));
            m.push(Protocol::Ws(std::borrow::Cow::Borrowed("/")));
        }
    }
    m.push(Protocol::P2p(peer_id(peer)));
    m
}

pub fn run_round(r: &Round) -> Outcome {
    let dir = case_dir(r.on_disk);
    let path = dir.path().join("shared").join("bootstrap_cache_shared.json");
    let cfg = Cfg {
        max_peers: r.max_peers,
        max_addrs: r.max_addrs,
        expiry_h: 24,
    };
    let real_cfg = cfg.real(&path);
    let active = Arc::new(AtomicUsize::new(r.writers));
    let committed = Arc::new(AtomicBool::new(false));
    let flush_ok = Arc::new(AtomicU64::new(0));
    let flush_err = Arc::new(AtomicU64::new(0));
    let first_err: Arc<Mutex<Option<String>>> = Arc::new(Mutex::new(None));
    let failures: Arc<Mutex<Vec<Failure>>> = Arc::new(Mutex::new(vec![]));
    let added: Arc<Mutex<BTreeSet<String>>> = Arc::new(Mutex::new(BTreeSet::new()));
    let start = Arc::new(std::sync::Barrier::new(r.writers + 1));
    let mut out = Outcome::default();

    std::thread::scope(|scope| {
        for w in 0..r.writers {
            let real_cfg = real_cfg.clone();
            let (active, committed, flush_ok, flush_err, first_err, failures, added, start) = (
                active.clone(),
                committed.clone(),
                flush_ok.clone(),
                flush_err.clone(),
                first_err.clone(),
                failures.clone(),
                added.clone(),
                start.clone(),
            );
            let r = r.clone();
            scope.spawn(move || {
                let mine = std::cell::RefCell::new(BTreeSet::new());
                start.wait();
                let res = vh_core::catch_panic(|| {
                    let mut store = BootstrapCacheStore::new(real_cfg.clone()).expect("store");
                    for it in 0..r.iters {
                        for k in 0..r.adds_per_iter {
                            let a = writer_addr(w, it, k);
                            mine.borrow_mut().insert(a.to_string());
                            store.add_addr(a);
                        }
                        let with_cleanup = match r.mode {
                            0 => true,
                            1 => false,
                            _ => (it as usize + w) % 2 == 0,
                        };
                        match store.sync_and_flush_to_disk(with_cleanup) {
                            Ok(()) => {
                                flush_ok.fetch_add(1, Ordering::SeqCst);
                                committed.store(true, Ordering::SeqCst);
                            }
                            Err(e) => {
                                flush_err.fetch_add(1, Ordering::SeqCst);
                                let mut g = first_err.lock().unwrap();
                                if g.is_none() {
                                    *g = Some(format!("{e:?}"));
                                }
                            }
                        }
                    }
                });
                if let Err(msg) = res {
                    failures.lock().unwrap().push(Failure {
                        sig: panic_sig("stress_writer", &msg),
                        detail: msg,
                    });
                }
                added.lock().unwrap().extend(mine.into_inner());
                active.fetch_sub(1, Ordering::SeqCst);
            });
        }
        // reader (this thread)
        start.wait();
        let mut reads_ok = 0u64;
        let mut reads_ok_concurrent = 0u64;
        let mut no_file = 0u64;
        loop {
            let writers_before = active.load(Ordering::SeqCst);
            let committed_before = committed.load(Ordering::SeqCst);
            let res = vh_core::catch_panic(|| load(&real_cfg));
            match res {
                Ok(Loaded::Ok(s)) => {
                    reads_ok += 1;
                    if writers_before > 0 {
                        reads_ok_concurrent += 1;
                    }
                    let mut ctx = vh_core::Ctx::default();
                    check_state(
                        &mut ctx,
                        "stress_read",
                        &s,
                        &cfg,
                        Want {
                            clean: true,
                            wellformed: true,
                            bounded: true,
                        },
                    );
                    failures.lock().unwrap().extend(ctx.failures);
                }
                Ok(Loaded::NoFile) => {
                    no_file += 1;
                    if committed_before {
                        failures.lock().unwrap().push(Failure {
                            sig: "stress:file_missing_after_first_commit".into(),
                            detail: format!("read #{} found no file although a flush had completed", reads_ok + no_file),
                        });
                    }
                }
                Ok(Loaded::Err(e)) => {
                    let raw = read_raw(&path).map(|b| b.len());
                    failures.lock().unwrap().push(Failure {
                        sig: "stress:torn_read".into(),
                        detail: format!(
                            "load_cache_data failed while {writers_before} writers were flushing: {e}; file now has {raw:?} bytes; after {reads_ok} good reads"
                        ),
                    });
                }
                Err(msg) => failures.lock().unwrap().push(Failure {
                    sig: panic_sig("stress_reader", &msg),
                    detail: msg,
                }),
            }
            if failures.lock().unwrap().len() >= 8 {
                break;
            }
            if writers_before == 0 {
                break;
            }
        }
        out.reads_ok = reads_ok;
        out.reads_ok_concurrent = reads_ok_concurrent;
        out.reads_no_file = no_file;
    });

    out.flush_ok = flush_ok.load(Ordering::SeqCst);
    out.flush_err = flush_err.load(Ordering::SeqCst);
    out.first_flush_err = first_err.lock().unwrap().clone();
    let mut fails = std::mem::take(&mut *failures.lock().unwrap());

    // the final file
    if out.flush_ok > 0 {
        match vh_core::catch_panic(|| load(&real_cfg)) {
            Ok(Loaded::Ok(s)) => {
                out.final_peers = s.peers;
                let added = added.lock().unwrap();
                for e in &s.ents {
                    if !added.contains(&e.addr) {
                        fails.push(Failure {
                            sig: "stress:final_file_has_addr_nobody_added".into(),
                            detail: format!("{e:?}"),
                        });
                        break;
                    }
                }
            }
            Ok(Loaded::NoFile) => fails.push(Failure {
                sig: "stress:final_file_missing".into(),
                detail: String::new(),
            }),
            Ok(Loaded::Err(e)) => fails.push(Failure {
                sig: "stress:final_file_does_not_load".into(),
                detail: e,
            }),
            Err(msg) => fails.push(Failure {
                sig: panic_sig("stress_final_load", &msg),
                detail: msg,
            }),
        }
        match read_raw(&path).as_deref().map(parse_raw_bytes) {
            Some(Ok(_)) => {}
            other => fails.push(Failure {
                sig: "stress:final_file_not_in_documented_format".into(),
                detail: format!("{:?}", other.map(|r| r.map(|_| ()))),
            }),
        }
    }
    if let Some(parent) = path.parent() {
        if let Ok(rd) = std::fs::read_dir(parent) {
            out.leftover_files = rd.filter_map(|e| e.ok()).filter(|e| e.path() != path).count() as u64;
        }
    }
    out.failures = fails;
    out
}

/// The fixed schedule of rounds for a tier. `units` scales the iteration counts.
pub fn rounds(thorough: bool, scale: f64) -> Vec<Round> {
    let mut v = vec![];
    let reps = if thorough { 20 } else { 1 };
    for rep in 0..reps {
        for writers in 2..=6usize {
            for mode in 0..3u8 {
                // small limits (constant eviction) and a large one (the file grows: long writes)
                let big = (writers + mode as usize + rep) % 2 == 0;
                let on_disk = (writers + rep) % 3 == 0;
                let base: f64 = if on_disk { 40.0 } else if big { 150.0 } else { 400.0 };
                v.push(Round {
                    writers,
                    iters: ((base * scale).ceil() as u32).max(5),
                    adds_per_iter: 1 + (writers as u32 + mode as u32) % 3,
                    mode,
                    max_peers: if big { 400 } else { 5 },
                    max_addrs: if big { 6 } else { 2 },
                    on_disk,
                });
            }
        }
    }
    v
}
