//! vh-bootstrap: checks over ant-bootstrap's on-disk peer cache (property C18). No hooks needed.
mod addrs;
mod c18;
mod corrupt;
mod history;
mod oracle;
mod stress;

fn main() {
    // `PeersArgs::get_bootstrap_addr` reads this variable before it looks at the cache file
    std::env::remove_var("ANT_PEERS");
    let cfg = vh_core::RunCfg::from_args();
    match cfg.prop.as_str() {
        "C18" => c18::run(cfg),
        other => {
            eprintln!("vh-bootstrap: unknown property {other}");
            std::process::exit(2);
        }
    }
}
