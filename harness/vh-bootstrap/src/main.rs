fn main() {
    vh_bootstrap::main_entry()
}
