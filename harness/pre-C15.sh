#!/bin/bash
# C14/C15 also run the same binary built with 1 KiB chunks (self_encryption reads MAX_CHUNK_SIZE at
# compile time); it lives in its own target dir so the two builds do not thrash each other.
cd "$(dirname "$0")" || exit 2
LOG="$(mktemp)"
if ! MAX_CHUNK_SIZE=1024 CARGO_NET_OFFLINE=true cargo build --release --offline -p vh-client --target-dir target-smallchunk >"$LOG" 2>&1; then
  echo "pre-check: small-chunk build failed" >&2; tail -30 "$LOG" >&2; rm -f "$LOG"; exit 2
fi
rm -f "$LOG"
