//! vh-client: checks over the real autonomi `Client` on a hand-stepped client `SwarmDriver`; the
//! harness answers the client's network reads from generated reply sets.
mod c14;
mod c15;
mod sim;

fn main() {
    let cfg = vh_core::RunCfg::from_args();
    match cfg.prop.as_str() {
        "C14" => c14::run(cfg),
        "C15" => c15::run(cfg),
        other => {
            eprintln!("vh-client: unknown property {other}");
            std::process::exit(2);
        }
    }
}
