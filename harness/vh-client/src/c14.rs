//! C14 — self-encrypted data round-trips; chunks are bounded and content-addressed.
//!
//! Lengths around every size-class boundary x contents (zeros, repeating, incompressible, mixed) x
//! fetch completion order. The real `Client::data_get` / `data_get_public` fetch through the real
//! client driver; the harness answers each outstanding chunk read from an in-memory chunk map in a
//! generated order. The same binary built with MAX_CHUNK_SIZE=1024 (self_encryption reads it at
//! compile time) reaches 1–3 additional data-map levels with small inputs; the default build runs
//! that binary as a child and folds its evidence in.

use crate::sim::*;
use ant_protocol::storage::{try_serialize_record, Chunk, ChunkAddress, RecordKind};
use ant_protocol::NetworkAddress;
use autonomi::client::data::DataMapChunk;
use bytes::Bytes;
use proptest::prelude::*;
use serde::{Deserialize, Serialize};
use std::collections::HashMap;
use vh_core::{pick_idx, Ctx, Report, RunCfg};
use vh_fix as fix;
use xor_name::XorName;

#[derive(Clone, Debug, Serialize, Deserialize)]
pub enum LenSel {
    Tiny(u8),
    Small(u16),
    /// k * MAX + delta
    AroundMax { k: u8, delta: i8 },
    /// fraction of the build's largest length
    Frac(u16),
}

#[derive(Clone, Debug, Serialize, Deserialize)]
pub enum Content {
    Zeros,
    Repeating(u8),
    Incompressible(u16),
    /// compressible head, incompressible tail
    Mixed(u16),
}

#[derive(Clone, Debug, Serialize, Deserialize)]
pub struct Case {
    pub len: LenSel,
    pub content: Content,
    pub order: Vec<u16>,
    pub public: bool,
    /// network reads (by number, in the order they are answered) whose holder does not return the chunk:
    /// the read ends NotFound (even) or times out (odd position in this list)
    #[serde(default)]
    pub missing: Vec<u8>,
}

pub fn max_chunk() -> usize {
    *self_encryption::MAX_CHUNK_SIZE
}

fn case_strategy() -> BoxedStrategy<Case> {
    let len = prop_oneof![
        2 => (0u8..6).prop_map(LenSel::Tiny),
        4 => (3u16..20_000).prop_map(LenSel::Small),
        5 => (1u8..=4, -2i8..=2).prop_map(|(k, delta)| LenSel::AroundMax { k, delta }),
        2 => any::<u16>().prop_map(LenSel::Frac),
    ];
    let content = prop_oneof![
        1 => Just(Content::Zeros),
        2 => (1u8..200).prop_map(Content::Repeating),
        4 => any::<u16>().prop_map(Content::Incompressible),
        2 => any::<u16>().prop_map(Content::Mixed),
    ];
    let missing = prop_oneof![3 => Just(vec![]), 1 => proptest::collection::vec(0u8..10, 1..3)];
    (len, content, proptest::collection::vec(any::<u16>(), 0..24), any::<bool>(), missing).prop_map(|(len, content, order, public, missing)| Case { len, content, order, public, missing }).boxed()
}

pub fn length_of(sel: &LenSel) -> usize {
    let max = max_chunk();
    // largest generated input: 5 chunks-worth in the default build, ~1.6 MB in the small-chunk build
    let top = if max >= 1 << 20 { 5 * max } else { 1600 * max };
    match sel {
        LenSel::Tiny(n) => *n as usize,
        LenSel::Small(n) => (*n as usize).min(top),
        LenSel::AroundMax { k, delta } => ((*k as usize * max) as i64 + *delta as i64).max(0) as usize,
        LenSel::Frac(f) => 3 + pick_idx(*f, top),
    }
}

pub fn content_of(c: &Content, len: usize) -> Vec<u8> {
    match c {
        Content::Zeros => vec![0u8; len],
        Content::Repeating(p) => (0..len).map(|i| (i % (*p as usize).max(1)) as u8).collect(),
        Content::Incompressible(s) => fix::pseudo_bytes(*s as u64 + 1, len),
        Content::Mixed(s) => {
            let mut v = vec![7u8; len / 2];
            v.extend(fix::pseudo_bytes(*s as u64 + 99, len - len / 2));
            v
        }
    }
}

pub fn chunk_record(c: &Chunk) -> libp2p::kad::Record {
    fix::record(
        NetworkAddress::from_chunk_address(*c.address()).to_record_key(),
        try_serialize_record(c, RecordKind::Chunk).expect("serialise").to_vec(),
    )
}

pub fn key_of(x: &XorName) -> libp2p::kad::RecordKey {
    NetworkAddress::from_chunk_address(ChunkAddress::new(*x)).to_record_key()
}

thread_local! {
    static SIM: std::cell::RefCell<Option<std::mem::ManuallyDrop<ClientSim>>> = const { std::cell::RefCell::new(None) };
}

/// Forget the worker's client: the next `with_sim` builds a fresh one (for sections whose cases must be
/// self-contained because they are about state a client carries from one read to the next).
pub fn reset_sim() {
    if let Some(sim) = SIM.with(|s| s.borrow_mut().take()) {
        drop(std::mem::ManuallyDrop::into_inner(sim));
    }
}

pub fn with_sim<R>(f: impl FnOnce(&mut ClientSim) -> R) -> R {
    let mut sim = SIM.with(|s| s.borrow_mut().take()).map(std::mem::ManuallyDrop::into_inner).unwrap_or_else(|| ClientSim::new(fix::ed_keypair(0xC14)));
    let r = f(&mut sim);
    if sim.driver.verif_pending_get_record().is_empty() {
        sim.requested.clear();
        SIM.with(|s| *s.borrow_mut() = Some(std::mem::ManuallyDrop::new(sim)));
    }
    r
}

fn check(case: &Case, ctx: &mut Ctx) {
    let max = max_chunk();
    let len = length_of(&case.len);
    let data = Bytes::from(content_of(&case.content, len));
    ctx.sample = Some(serde_json::json!({"len": len, "content": format!("{:?}", case.content), "public": case.public, "max_chunk": max}));
    ctx.canon = Some(format!("{len}/{:?}/{}/{:?}/{:?}", case.content, case.public, case.order, case.missing));
    let enc = autonomi::self_encryption::encrypt(data.clone());
    if len < 3 {
        ctx.label("too_small");
        if enc.is_ok() {
            ctx.fail("tiny_input_not_rejected", format!("{len} bytes were self-encrypted"));
        }
        return;
    }
    let (dm, chunks) = match enc {
        Ok(x) => x,
        Err(e) => {
            ctx.fail("encryptable_input_rejected", format!("{len} bytes: {e:?}"));
            return;
        }
    };
    // determinism
    match autonomi::self_encryption::encrypt(data.clone()) {
        Ok((dm2, chunks2)) => {
            // chunk addresses are compared as a set: the order of the returned vector is not part
            // of the statement (content chunks are produced by parallel workers)
            let names = |v: &Vec<Chunk>| v.iter().map(|c| *c.name()).collect::<std::collections::BTreeSet<_>>();
            if dm2.value() != dm.value() {
                ctx.fail("data_map_not_deterministic", format!("{len} bytes ({:?})", case.content));
            }
            if names(&chunks2) != names(&chunks) {
                ctx.fail("chunk_addresses_not_deterministic", format!("{len} bytes ({:?})", case.content));
            }
        }
        Err(e) => ctx.fail("encryptable_input_rejected", format!("second run: {e:?}")),
    }
    // bounded and content-addressed
    let mut map: HashMap<Vec<u8>, Chunk> = HashMap::new();
    for c in chunks.iter().chain(std::iter::once(&dm)) {
        if fix::sha3(c.value()) != c.name().0 {
            ctx.fail("chunk_address_is_not_hash_of_content", format!("chunk of {} bytes", c.value().len()));
        }
        if c.value().len() > max {
            let excess = c.value().len() - max;
            let sig = if excess <= 64 { "chunk_exceeds_max_size_by_cipher_overhead" } else { "chunk_exceeds_max_size" };
            ctx.fail(sig, format!("input of {len} bytes ({:?}): a chunk has {} bytes, maximum chunk size is {max} (+{excess})", case.content, c.value().len()));
        }
        map.insert(key_of(c.name()).to_vec(), c.clone());
    }
    let boundary = matches!(case.len, LenSel::AroundMax { .. }) || len <= 4;
    let levels = chunks.len();
    let multi_level = {
        // a first-level map of n chunks needs ceil(len / max) content chunks (3 below 3*max)
        let content_chunks = if len < 3 * max { 3 } else { len.div_ceil(max) };
        levels > content_chunks
    };
    ctx.label_if(multi_level, "multi_level_data_map");
    ctx.label_if(boundary, "boundary_adjacent_length");
    ctx.label_if(matches!(case.content, Content::Incompressible(_)), "incompressible");

    // ---- fetch + decrypt through the real client --------------------------------------------------
    let mut reordered = false;
    let mut denied = 0usize;
    let got = with_sim(|sim| {
        let client = sim.client.clone();
        let op = if case.public {
            let addr = *dm.name();
            sim.spawn(async move { client.data_get_public(addr).await.map_err(|e| format!("{e:?}")) })
        } else {
            let dmc = DataMapChunk::from(dm.clone());
            sim.spawn(async move { client.data_get(dmc).await.map_err(|e| format!("{e:?}")) })
        };
        let mut oi = 0usize;
        let finished = sim.drive(&op, |sim| {
            let n = sim.outstanding.len();
            let i = pick_idx(case.order.get(oi).copied().unwrap_or(0), n);
            let read_no = oi;
            oi += 1;
            if i > 0 {
                reordered = true;
            }
            let (id, key) = (sim.outstanding[i].id, sim.outstanding[i].key.clone());
            if let Some(pos) = case.missing.iter().position(|m| *m as usize == read_no) {
                denied += 1;
                sim.terminate(id, &key, if pos % 2 == 0 { Term::NotFound } else { Term::Timeout });
                return;
            }
            match map.get(&key.to_vec()) {
                Some(c) => sim.reply(id, Some(fix::peer(1)), chunk_record(c)),
                None => sim.terminate(id, &key, Term::NotFound),
            }
        });
        if !finished {
            return Err("client made no progress".to_string());
        }
        op.take().unwrap()
    });
    ctx.label_if(reordered, "fetch_order_differs_from_request_order");
    ctx.label(if case.public { "data_get_public" } else { "data_get" });
    ctx.nontrivial_if(boundary || multi_level || reordered);
    ctx.label_if(denied > 0, "some_chunk_reads_found_no_holder");
    if denied > 0 {
        // the data cannot be (fully) fetched: an error is the right answer (a client that retries and succeeds
        // would be as well); bytes other than the original, presented as success, are mangled data
        ctx.label(if got.is_ok() { "incomplete_fetch_ends_ok" } else { "incomplete_fetch_ends_in_error" });
        if let Ok(b) = &got {
            if *b != data {
                ctx.fail("incomplete_fetch_returns_different_bytes", format!("input {len} bytes ({:?}), {denied} chunk read(s) found no holder, yet the read succeeded with {} bytes that are not the input", case.content, b.len()));
            }
        }
        return;
    }
    match got {
        Ok(b) if b == data => {}
        Ok(b) => ctx.fail("roundtrip_returns_different_bytes", format!("input {len} bytes ({:?}), got {} bytes back", case.content, b.len())),
        Err(e) => ctx.fail("roundtrip_fails", format!("input {len} bytes ({:?}): {e}", case.content)),
    }
}

pub fn run(cfg: RunCfg) {
    let small = max_chunk() < 1 << 20;
    let mut rep = Report::new(cfg.clone(), "exploration");
    rep.rule = format!("C14 (MAX_CHUNK_SIZE={}): lengths 0-5 / small / k*MAX+-2 / random, contents zeros / repeating / incompressible / mixed, fetch completion order generated; oracle: encrypt -> fetch -> decrypt round trip through the real client, chunk size / address / determinism checks.", max_chunk());
    rep.assumptions = vec![
        "the network is an in-memory chunk map answering one FoundRecord per read (Quorum::One) at the kad-event seam".into(),
        "the default build (1 MiB chunks) covers the size-class boundaries, the MAX_CHUNK_SIZE=1024 build covers multi-level data maps".into(),
        format!("CHUNK_DOWNLOAD_BATCH_SIZE={}", *autonomi::client::data::CHUNK_DOWNLOAD_BATCH_SIZE),
    ];
    let cases = if small { (600, 40_000) } else { (500, 6_000) };
    vh_core::section!(
        rep, if small { "roundtrip_small_chunks" } else { "roundtrip" }, cases, 16,
        "non-trivial: boundary-adjacent length, multi-level data map, or fetch order != request order; distinct by (length, content, order)",
        case_strategy, check
    );
    if !small {
        run_small_chunk_child(&mut rep, &cfg, "C14");
    }
    rep.finish();
}

/// Run the MAX_CHUNK_SIZE=1024 build of this binary as a child and fold its evidence in.
pub fn run_small_chunk_child(rep: &mut Report, cfg: &RunCfg, prop: &str) {
    if cfg.replay.is_some() || cfg.only.is_some() || std::env::var_os("VERIF_CHILD_OUT").is_some() {
        return;
    }
    let exe = cfg.root.join("harness/target-smallchunk/release/vh-client");
    if !exe.exists() {
        rep.inconclusive.push(format!("small-chunk build {} missing", exe.display()));
        eprintln!("[{prop}] small-chunk build missing: {}", exe.display());
        return;
    }
    let out = tempfile::NamedTempFile::new().expect("tmp");
    let status = std::process::Command::new(&exe)
        .args(["--prop", prop, "--tier", cfg.tier.as_str(), "--seed", &cfg.seed.to_string(), "--scale", &cfg.scale.to_string(), "--workers", &cfg.workers.to_string()])
        .env("VERIF_CHILD_OUT", out.path())
        .env("VERIF_ROOT", &cfg.root)
        .status();
    match status {
        Ok(st) => {
            if let Ok(txt) = std::fs::read_to_string(out.path()) {
                if let Ok(ev) = serde_json::from_str::<serde_json::Value>(&txt) {
                    rep.add_child_evidence("", &ev);
                }
            }
            match st.code() {
                Some(0) => {}
                Some(1) => {
                    // the child printed its VIOLATION line(s) and wrote the replay file
                    rep.violations.push(vh_core::Violation {
                        section: "small_chunk_child".into(),
                        failure: vh_core::Failure { sig: "see_child_output".into(), detail: "violation reported by the small-chunk build".into() },
                        replay: cfg.root.join("replays"),
                    });
                }
                other => rep.inconclusive.push(format!("small-chunk child exited with {other:?}")),
            }
        }
        Err(e) => rep.inconclusive.push(format!("cannot run small-chunk child: {e}")),
    }
}
