//! ClientSim: the real autonomi `Client` over a client `SwarmDriver` that is never `run()`.
//! Network reads show up as `GetNetworkRecord` commands; the harness lets the real driver start the
//! kad query and then injects the holders' replies (and the terminating event) as kad events.

#![allow(dead_code)]

use ant_networking::verif_hooks::NetworkSwarmCmd;
use ant_networking::{Network, NetworkBuilder, NetworkEvent, SwarmDriver};
use autonomi::Client;
use libp2p::identity::Keypair;
use libp2p::kad::{self, PeerRecord, ProgressStep, QueryId, QueryResult, QueryStats, Record, RecordKey};
use libp2p::PeerId;
use std::collections::BTreeMap;
use std::num::NonZeroUsize;
use std::sync::{Arc, Mutex};
use tokio::runtime::Runtime;
use tokio::sync::mpsc;

pub struct Outstanding {
    pub id: QueryId,
    pub key: RecordKey,
    pub replies_sent: usize,
}

pub struct ClientSim {
    pub rt: Runtime,
    pub net: Network,
    pub driver: SwarmDriver,
    pub events: mpsc::Receiver<NetworkEvent>,
    pub client: Client,
    pub outstanding: Vec<Outstanding>,
    /// every key the client asked the network for, in request order
    pub requested: Vec<RecordKey>,
    /// client operations in progress (polled from `run_tasks`)
    pub local_ops: Vec<std::pin::Pin<Box<dyn std::future::Future<Output = ()>>>>,
}

pub struct Op<T>(pub Arc<Mutex<Option<T>>>);
impl<T> Op<T> {
    pub fn done(&self) -> bool {
        self.0.lock().unwrap().is_some()
    }
    pub fn take(&self) -> Option<T> {
        self.0.lock().unwrap().take()
    }
}

#[derive(Clone, Copy, Debug)]
pub enum Term {
    Finished,
    NotFound,
    Timeout,
}

impl Drop for ClientSim {
    fn drop(&mut self) {
        let _g = self.rt.enter();
        self.local_ops.clear();
        self.outstanding.clear();
    }
}

impl ClientSim {
    pub fn new(keypair: Keypair) -> ClientSim {
        let rt = tokio::runtime::Builder::new_current_thread().enable_all().build().expect("runtime");
        let (net, events, driver) = rt.block_on(async { NetworkBuilder::new(keypair, true).build_client().expect("build_client") });
        let client = Client::verif_from_network(net.clone(), ant_evm::EvmNetwork::ArbitrumOne);
        ClientSim { rt, net, driver, events, client, outstanding: vec![], requested: vec![], local_ops: vec![] }
    }

    /// Start a client operation. The future is NOT handed to `tokio::spawn` (that would demand `Send`,
    /// which the client API does not promise): it is kept here and polled from `run_tasks`.
    pub fn spawn<T: 'static>(&mut self, fut: impl std::future::Future<Output = T> + 'static) -> Op<T> {
        let slot = Arc::new(Mutex::new(None));
        let s2 = slot.clone();
        self.local_ops.push(Box::pin(async move {
            let r = fut.await;
            *s2.lock().unwrap() = Some(r);
        }));
        Op(slot)
    }

    pub fn run_tasks(&mut self) {
        let ops = &mut self.local_ops;
        self.rt.block_on(async {
            // one poll of every unfinished client operation, in start order
            std::future::poll_fn(|cx| {
                ops.retain_mut(|f| f.as_mut().poll(cx).is_pending());
                std::task::Poll::Ready(())
            })
            .await;
            let done = Arc::new(std::sync::atomic::AtomicBool::new(false));
            let d2 = done.clone();
            tokio::spawn(async move {
                d2.store(true, std::sync::atomic::Ordering::SeqCst);
            });
            let mut spins = 0u32;
            while !done.load(std::sync::atomic::Ordering::SeqCst) {
                tokio::task::yield_now().await;
                spins += 1;
                if spins > 1_000_000 {
                    panic!("sentinel never ran");
                }
            }
        });
    }

    /// Let the client run until it blocks; hand its network reads to the real driver.
    /// Returns the number of new outstanding reads.
    pub fn pump(&mut self) -> usize {
        let mut new = 0;
        for _ in 0..3 {
            self.run_tasks();
            while let Some(cmd) = self.driver.verif_try_recv_network_cmd() {
                let d = &mut self.driver;
                let key = match &cmd {
                    NetworkSwarmCmd::GetNetworkRecord { key, .. } => Some(key.clone()),
                    _ => None,
                };
                let before: Vec<QueryId> = d.verif_pending_get_record().into_iter().map(|x| x.0).collect();
                self.rt.block_on(async move {
                    let _ = d.verif_handle_network_cmd(cmd);
                });
                if let Some(key) = key {
                    self.requested.push(key.clone());
                    for (id, k, _) in self.driver.verif_pending_get_record() {
                        if !before.contains(&id) && k == key {
                            self.outstanding.push(Outstanding { id, key: key.clone(), replies_sent: 0 });
                            new += 1;
                        }
                    }
                }
            }
            while let Some(cmd) = self.driver.verif_try_recv_local_cmd() {
                let d = &mut self.driver;
                self.rt.block_on(async move {
                    let _ = d.verif_handle_local_cmd(cmd);
                });
            }
            while self.events.try_recv().is_ok() {}
        }
        // forget reads the driver has completed
        let pending: Vec<QueryId> = self.driver.verif_pending_get_record().into_iter().map(|x| x.0).collect();
        self.outstanding.retain(|o| pending.contains(&o.id));
        new
    }

    pub fn is_pending(&self, id: &QueryId) -> bool {
        self.driver.verif_pending_get_record().iter().any(|x| x.0 == *id)
    }

    /// One holder's reply to an outstanding read.
    pub fn reply(&mut self, id: QueryId, peer: Option<PeerId>, record: Record) {
        let count = self.outstanding.iter_mut().find(|o| o.id == id).map(|o| {
            o.replies_sent += 1;
            o.replies_sent
        }).unwrap_or(1);
        let ev = kad::Event::OutboundQueryProgressed {
            id,
            result: QueryResult::GetRecord(Ok(kad::GetRecordOk::FoundRecord(PeerRecord { peer, record }))),
            stats: QueryStats::empty(),
            step: ProgressStep { count: NonZeroUsize::new(count).unwrap(), last: false },
        };
        let d = &mut self.driver;
        self.rt.block_on(async move {
            let _ = d.verif_handle_kad_event(ev);
        });
    }

    pub fn terminate(&mut self, id: QueryId, key: &RecordKey, term: Term) {
        let result = match term {
            Term::Finished => QueryResult::GetRecord(Ok(kad::GetRecordOk::FinishedWithNoAdditionalRecord { cache_candidates: BTreeMap::new() })),
            Term::NotFound => QueryResult::GetRecord(Err(kad::GetRecordError::NotFound { key: key.clone(), closest_peers: vec![] })),
            Term::Timeout => QueryResult::GetRecord(Err(kad::GetRecordError::Timeout { key: key.clone() })),
        };
        let ev = kad::Event::OutboundQueryProgressed { id, result, stats: QueryStats::empty(), step: ProgressStep { count: NonZeroUsize::new(99).unwrap(), last: true } };
        let d = &mut self.driver;
        self.rt.block_on(async move {
            let _ = d.verif_handle_kad_event(ev);
        });
    }

    /// Drive `op` to completion: whenever the client is blocked on network reads, `serve` is asked
    /// to answer one of the outstanding ones (it receives the list and returns after replying).
    pub fn drive<T>(&mut self, op: &Op<T>, mut serve: impl FnMut(&mut ClientSim)) -> bool {
        let mut guard = 0u32;
        loop {
            self.pump();
            if op.done() {
                return true;
            }
            if self.outstanding.is_empty() {
                guard += 1;
                if guard > 2000 {
                    return false;
                }
                continue;
            }
            guard = 0;
            serve(self);
        }
    }
}
