//! C15 — client reads are authenticated against the requested address.
//!
//! * chunk_get / data_get_public: the honest chunk set of a self-encrypted blob, with a generated
//!   subset of replies replaced by another valid chunk's bytes, a wrong-kind record, garbage, a
//!   truncated chunk or a record under another key.
//! * fetch_and_decrypt_vault: five holders each return one of up to four scratchpad versions
//!   (owner-signed with counters, unsigned, forged, foreign-owned — also encrypted to the requester)
//!   or nothing, in a generated arrival order, through the real accumulate / split-merge code.

use crate::c14::{chunk_record, content_of, key_of, with_sim, Content};
use crate::sim::*;
use ant_protocol::storage::{try_serialize_record, Chunk, RecordKind, Scratchpad};
use bytes::Bytes;
use proptest::prelude::*;
use serde::{Deserialize, Serialize};
use std::collections::HashMap;
use vh_core::{pick_idx, Ctx, Report, RunCfg};
use vh_fix as fix;

#[derive(Clone, Copy, Debug, Serialize, Deserialize, PartialEq, Eq, Hash)]
pub enum Corruption {
    /// a different, perfectly valid chunk presented under the requested key
    OtherChunk,
    /// a scratchpad record under the requested key
    WrongKind,
    Garbage,
    /// the right chunk record cut short
    Truncated,
    /// the right content, but the record says another key
    OtherKey,
    /// other content wrapped as a paid upload: kind ChunkWithPayment, (empty proof, other chunk)
    OtherChunkPaidKind,
    /// the right content wrapped as a paid upload (the client may take or refuse it)
    RightChunkPaidKind,
    /// the other chunk's encoding behind the tag of record kind t (0..8)
    OtherChunkUnderTag(u8),
    /// a chunk record whose body spells out the REQUESTED address next to the other chunk's bytes
    /// (form 0: [hex string, bytes], 1: [bin, bytes], 2: [[array], bytes], 3: {address, value} with hex, 4: [bytes, hex])
    OtherChunkClaimingAddress(u8),
}

#[derive(Clone, Debug, Serialize, Deserialize)]
pub struct ChunkCase {
    pub public_data: bool,
    pub len: u16,
    pub content: Content,
    /// (index of the network read, what the holder returns instead)
    pub corrupt: Vec<(u8, Corruption)>,
    pub order: Vec<u16>,
}

fn corruption() -> impl Strategy<Value = Corruption> {
    prop_oneof![4 => Just(Corruption::OtherChunk), 1 => Just(Corruption::WrongKind), 1 => Just(Corruption::Garbage), 1 => Just(Corruption::Truncated), 1 => Just(Corruption::OtherKey),
        2 => Just(Corruption::OtherChunkPaidKind), 1 => Just(Corruption::RightChunkPaidKind), 2 => (0u8..8).prop_map(Corruption::OtherChunkUnderTag), 2 => (0u8..5).prop_map(Corruption::OtherChunkClaimingAddress)]
}

fn chunk_strategy() -> BoxedStrategy<ChunkCase> {
    (
        any::<bool>(),
        3u16..6000,
        prop_oneof![Just(Content::Zeros), any::<u16>().prop_map(Content::Incompressible), any::<u16>().prop_map(Content::Mixed)],
        proptest::collection::vec((0u8..6, corruption()), 0..3),
        proptest::collection::vec(any::<u16>(), 0..8),
    )
        .prop_map(|(public_data, len, content, corrupt, order)| ChunkCase { public_data, len, content, corrupt, order })
        .boxed()
}

fn check_chunks(case: &ChunkCase, ctx: &mut Ctx) {
    let data = Bytes::from(content_of(&case.content, case.len as usize));
    let Ok((dm, chunks)) = autonomi::self_encryption::encrypt(data.clone()) else {
        ctx.fail("encryptable_input_rejected", format!("{} bytes", case.len));
        return;
    };
    let mut map: HashMap<Vec<u8>, Chunk> = HashMap::new();
    for c in chunks.iter().chain(std::iter::once(&dm)) {
        map.insert(key_of(c.name()).to_vec(), c.clone());
    }
    // what a substituting holder presents instead: for a data read another, complete, data map (whose
    // chunks it serves as well); for a chunk read another valid chunk
    let decoy = if case.public_data {
        match autonomi::self_encryption::encrypt(Bytes::from(content_of(&Content::Mixed(case.len ^ 0x5a5a), case.len as usize + 7))) {
            Ok((dm2, chunks2)) => {
                for c in &chunks2 {
                    map.entry(key_of(c.name()).to_vec()).or_insert_with(|| c.clone());
                }
                dm2
            }
            Err(_) => fix::chunk(4242 + case.len as u64, 64),
        }
    } else {
        fix::chunk(4242 + case.len as u64, 64)
    };
    let target = if case.public_data { *dm.name() } else { *chunks[0].name() };
    let (res, delivered_bad) = perform_read(&map, &decoy, target, case.public_data, &case.corrupt, &case.order);
    ctx.label(if case.public_data { "data_get_public" } else { "chunk_get" });
    ctx.label_if(delivered_bad > 0, "inauthentic_reply_delivered");
    for (_, c) in &case.corrupt {
        ctx.label(format!("plan_{c:?}"));
    }
    ctx.nontrivial_if(delivered_bad > 0);
    ctx.canon = Some(format!("{}/{}/{:?}/{:?}", case.public_data, case.len, case.corrupt, case.order));
    ctx.sample = Some(serde_json::json!({"case": case, "ok": res.is_ok(), "bad_replies_delivered": delivered_bad}));
    if let Ok(bytes) = res {
        if case.public_data {
            if bytes != data.to_vec() {
                ctx.fail("data_get_public_returns_substituted_content", format!("requested data map {}, got {} bytes that are not the data it describes", hex::encode(&target.0[..6]), bytes.len()));
            }
        } else if fix::sha3(&bytes) != target.0 {
            ctx.fail("chunk_get_returns_content_not_hashing_to_address", format!("requested {}, returned content hashes to {}", hex::encode(&target.0[..6]), hex::encode(&fix::sha3(&bytes)[..6])));
        }
    }
}

/// One client read (chunk_get / data_get_public of `target`) against holders that answer from `map`,
/// except for the network reads named in `corrupt`. Returns the client's result and the number of
/// inauthentic replies that were actually delivered.
fn perform_read(map: &HashMap<Vec<u8>, Chunk>, decoy: &Chunk, target: xor_name::XorName, public: bool, corrupt: &[(u8, Corruption)], order: &[u16]) -> (Result<Vec<u8>, String>, usize) {
    perform_read_op(map, decoy, if public { ReadOp::DataPublic(target) } else { ReadOp::Chunk(target) }, corrupt, order)
}

/// The client entrances through which content-addressed data is read.
#[derive(Clone, Debug)]
pub enum ReadOp {
    Chunk(xor_name::XorName),
    DataPublic(xor_name::XorName),
    /// the caller holds the data map; only the chunks it names come from the network
    DataPrivate(autonomi::client::data::DataMapChunk),
    ArchivePublic(xor_name::XorName),
    ArchivePrivate(autonomi::client::data::DataMapChunk),
}

/// canonical bytes of an archive: its entries sorted by path
pub fn canon_public_archive(a: &autonomi::client::files::archive_public::PublicArchive) -> Vec<u8> {
    let mut e: Vec<String> = a.iter().map(|(p, addr, m)| format!("{p:?}|{}|{}|{}|{}|{}", hex::encode(addr.0), m.uploaded, m.created, m.modified, m.size)).collect();
    e.sort();
    e.join("\n").into_bytes()
}

pub fn canon_private_archive(a: &autonomi::client::files::archive::PrivateArchive) -> Vec<u8> {
    let mut e: Vec<String> = a.iter().map(|(p, dm, m)| format!("{p:?}|{}|{}|{}|{}|{}", dm.to_hex(), m.uploaded, m.created, m.modified, m.size)).collect();
    e.sort();
    e.join("\n").into_bytes()
}

fn perform_read_op(map: &HashMap<Vec<u8>, Chunk>, decoy: &Chunk, rop: ReadOp, corrupt: &[(u8, Corruption)], order: &[u16]) -> (Result<Vec<u8>, String>, usize) {
    let paid = |c: &Chunk| ant_protocol::storage::try_serialize_record(&(ant_evm::ProofOfPayment { peer_quotes: vec![] }, c.clone()), ant_protocol::storage::RecordKind::ChunkWithPayment).map(|b| b.to_vec()).unwrap_or_default();
    let mut delivered_bad = 0usize;
    let res: Result<Vec<u8>, String> = with_sim(|sim| {
        let client = sim.client.clone();
        let op = sim.spawn(async move {
            match rop {
                ReadOp::DataPublic(target) => client.data_get_public(target).await.map(|b| b.to_vec()).map_err(|e| format!("{e:?}")),
                ReadOp::Chunk(target) => client.chunk_get(target).await.map(|c| c.value().to_vec()).map_err(|e| format!("{e:?}")),
                ReadOp::DataPrivate(dm) => client.data_get(dm).await.map(|b| b.to_vec()).map_err(|e| format!("{e:?}")),
                ReadOp::ArchivePublic(target) => client.archive_get_public(target).await.map(|a| canon_public_archive(&a)).map_err(|e| format!("{e:?}")),
                ReadOp::ArchivePrivate(dm) => client.archive_get(dm).await.map(|a| canon_private_archive(&a)).map_err(|e| format!("{e:?}")),
            }
        });
        let mut read_no = 0usize;
        let mut oi = 0usize;
        let ok = sim.drive(&op, |sim| {
            let n = sim.outstanding.len();
            let i = pick_idx(order.get(oi).copied().unwrap_or(0), n);
            oi += 1;
            let (id, key) = (sim.outstanding[i].id, sim.outstanding[i].key.clone());
            let bad = corrupt.iter().find(|(r, _)| *r as usize == read_no).map(|(_, c)| *c);
            read_no += 1;
            let honest = map.get(&key.to_vec()).map(chunk_record);
            let rec = match (bad, honest) {
                (None, Some(h)) => Some(h),
                (None, None) => None,
                (Some(c), h) => {
                    delivered_bad += 1;
                    Some(match c {
                        Corruption::OtherChunk => fix::record(key.clone(), chunk_record(decoy).value),
                        Corruption::WrongKind => fix::record(key.clone(), fix::scratchpad_record(&fix::scratchpad(5, 1, vec![1, 2, 3], 1, fix::Sig::Valid)).value),
                        Corruption::Garbage => fix::record(key.clone(), fix::pseudo_bytes(read_no as u64, 40)),
                        Corruption::Truncated => {
                            let mut v = h.map(|r| r.value).unwrap_or_else(|| vec![0x91, 1, 0xc4, 9, 1, 2]);
                            v.truncate((v.len() / 2).max(3));
                            fix::record(key.clone(), v)
                        }
                        Corruption::OtherKey => fix::record(key_of(decoy.name()), h.map(|r| r.value).unwrap_or_default()),
                        Corruption::OtherChunkPaidKind => fix::record(key.clone(), paid(decoy)),
                        Corruption::RightChunkPaidKind => match map.get(&key.to_vec()) {
                            Some(c) => fix::record(key.clone(), paid(c)),
                            None => fix::record(key.clone(), paid(decoy)),
                        },
                        Corruption::OtherChunkClaimingAddress(form) => {
                            let honest_name: [u8; 32] = map.get(&key.to_vec()).map(|c| c.name().0).unwrap_or([7u8; 32]);
                            let plain = chunk_record(decoy).value;
                            let body = rmp_serde::to_vec(&bytes::Bytes::copy_from_slice(decoy.value())).unwrap_or_default();
                            let hexs = rmp_serde::to_vec(&hex::encode(honest_name)).unwrap_or_default();
                            let bin = rmp_serde::to_vec(&bytes::Bytes::copy_from_slice(&honest_name)).unwrap_or_default();
                            let arr = rmp_serde::to_vec(&honest_name).unwrap_or_default();
                            let s = |t: &str| rmp_serde::to_vec(t).unwrap_or_default();
                            let crafted = match form % 5 {
                                0 => [vec![0x92], hexs, body].concat(),
                                1 => [vec![0x92], bin, body].concat(),
                                2 => [vec![0x92, 0x91], arr, body].concat(),
                                3 => [vec![0x82], s("address"), hexs, s("value"), body].concat(),
                                _ => [vec![0x92], body, hexs].concat(),
                            };
                            fix::record(key.clone(), [plain[..2.min(plain.len())].to_vec(), crafted].concat())
                        }
                        Corruption::OtherChunkUnderTag(t) => {
                            let mut v = if t % 8 == 1 { paid(decoy) } else { chunk_record(decoy).value };
                            if v.len() > 1 {
                                v[1] = t % 8;
                            }
                            fix::record(key.clone(), v)
                        }
                    })
                }
            };
            match rec {
                Some(r) => {
                    sim.reply(id, Some(fix::peer(2)), r);
                    if sim.is_pending(&id) {
                        // the driver did not take the reply as an answer: nobody else holds the record
                        sim.terminate(id, &key, Term::Finished);
                    }
                }
                None => sim.terminate(id, &key, Term::NotFound),
            }
        });
        if !ok {
            return Err("client made no progress".into());
        }
        op.take().unwrap()
    });
    (res, delivered_bad)
}

// ------------------------------------------------------------------------------------------------
// section reread: ONE client reads several addresses one after the other (the same address again
// after a rejected or a successful read, another address in between), every read against its own set
// of substituted replies. Whatever an earlier read left behind in the client — a rejected reply, a
// fetched data map, a completed query — must not make a later read return unauthentic content.
// ------------------------------------------------------------------------------------------------

#[derive(Clone, Debug, Serialize, Deserialize)]
pub struct RereadStep {
    /// which of the two blobs
    pub blob: u8,
    pub public_data: bool,
    pub corrupt: Vec<(u8, Corruption)>,
    pub order: Vec<u16>,
}

#[derive(Clone, Debug, Serialize, Deserialize)]
pub struct RereadCase {
    pub len: u16,
    pub seed: u16,
    pub steps: Vec<RereadStep>,
}

fn reread_strategy() -> BoxedStrategy<RereadCase> {
    let step = (prop_oneof![3 => Just(0u8), 1 => Just(1u8)], prop_oneof![3 => Just(true), 1 => Just(false)], prop_oneof![2 => Just(vec![]), 3 => proptest::collection::vec((0u8..4, corruption()), 1..3)], proptest::collection::vec(any::<u16>(), 0..6))
        .prop_map(|(blob, public_data, corrupt, order)| RereadStep { blob, public_data, corrupt, order });
    (3u16..5000, any::<u16>(), proptest::collection::vec(step, 2..vh_core::depth(5, 9))).prop_map(|(len, seed, steps)| RereadCase { len, seed, steps }).boxed()
}

fn check_reread(case: &RereadCase, ctx: &mut Ctx) {
    // a fresh client per case: the case is about what the client carries from one read to the next
    crate::c14::reset_sim();
    // two blobs; each is the other's decoy, so a substituted data map is complete and fully served
    let datas: Vec<Bytes> = (0..2u16).map(|b| Bytes::from(content_of(&Content::Mixed(case.seed ^ (b * 0x3c3c)), case.len as usize + b as usize * 11))).collect();
    let mut enc = vec![];
    let mut map: HashMap<Vec<u8>, Chunk> = HashMap::new();
    for d in &datas {
        let Ok((dm, chunks)) = autonomi::self_encryption::encrypt(d.clone()) else {
            ctx.fail("encryptable_input_rejected", format!("{} bytes", d.len()));
            return;
        };
        for c in chunks.iter().chain(std::iter::once(&dm)) {
            map.insert(key_of(c.name()).to_vec(), c.clone());
        }
        enc.push((dm, chunks));
    }
    let (mut bad_total, mut rereads_after_bad, mut rereads) = (0usize, 0usize, 0usize);
    let mut seen: Vec<(u8, bool, bool)> = vec![];
    for (i, st) in case.steps.iter().enumerate() {
        let b = st.blob as usize % 2;
        let (dm, chunks) = &enc[b];
        let (odm, ochunks) = &enc[1 - b];
        let target = if st.public_data { *dm.name() } else { *chunks[0].name() };
        let decoy = if st.public_data { odm.clone() } else { ochunks[0].clone() };
        let (res, bad) = perform_read(&map, &decoy, target, st.public_data, &st.corrupt, &st.order);
        if let Some((_, _, had_bad)) = seen.iter().find(|(sb, sp, _)| *sb == st.blob % 2 && *sp == st.public_data) {
            rereads += 1;
            if *had_bad {
                rereads_after_bad += 1;
            }
        }
        seen.push((st.blob % 2, st.public_data, bad > 0));
        bad_total += bad;
        if let Ok(bytes) = res {
            if st.public_data {
                if bytes != datas[b].to_vec() {
                    ctx.fail(
                        "data_get_public_returns_substituted_content",
                        format!("read {i} of {}: requested data map {}, got {} bytes that are not the data it describes ({} inauthentic replies in this read, {} in earlier reads)", case.steps.len(), hex::encode(&target.0[..6]), bytes.len(), bad, bad_total - bad),
                    );
                    return;
                }
            } else if fix::sha3(&bytes) != target.0 {
                ctx.fail(
                    "chunk_get_returns_content_not_hashing_to_address",
                    format!("read {i} of {}: requested {}, returned content hashes to {} ({} inauthentic replies in this read, {} in earlier reads)", case.steps.len(), hex::encode(&target.0[..6]), hex::encode(&fix::sha3(&bytes)[..6]), bad, bad_total - bad),
                );
                return;
            }
        }
    }
    ctx.label_if(rereads > 0, "same_address_read_again");
    ctx.label_if(rereads_after_bad > 0, "same_address_read_again_after_inauthentic_replies");
    ctx.label_if(bad_total > 0, "inauthentic_reply_delivered");
    ctx.nontrivial_if(rereads_after_bad > 0);
    ctx.canon = Some(format!("{case:?}"));
    ctx.sample = Some(serde_json::json!({"case": case, "bad_replies_delivered": bad_total}));
}


// ------------------------------------------------------------------------------------------------
// section wrappers: the other entrances through which content-addressed data reaches the caller —
// data_get (the caller holds the data map), archive_get_public, archive_get. Whatever the entrance,
// what is returned must be what the requested address / data map describes.
// ------------------------------------------------------------------------------------------------

#[derive(Clone, Debug, Serialize, Deserialize)]
pub struct WrapCase {
    /// 0 data_get, 1 archive_get_public, 2 archive_get
    pub entrance: u8,
    pub size: u16,
    pub seed: u16,
    pub corrupt: Vec<(u8, Corruption)>,
    pub order: Vec<u16>,
}

fn wrap_strategy() -> BoxedStrategy<WrapCase> {
    (0u8..3, 1u16..3000, any::<u16>(), proptest::collection::vec((0u8..5, corruption()), 0..3), proptest::collection::vec(any::<u16>(), 0..8))
        .prop_map(|(entrance, size, seed, corrupt, order)| WrapCase { entrance, size, seed, corrupt, order })
        .boxed()
}

fn archive_meta(i: u64) -> autonomi::client::files::archive::Metadata {
    autonomi::client::files::archive::Metadata { uploaded: 1_700_000_000 + i, created: 1_600_000_000 + i * 3, modified: 1_650_000_000 + i * 7, size: i * 1001 }
}

/// serialised archive with `n` entries derived from `seed` (public: addresses; private: data maps)
fn archive_bytes(private: bool, n: usize, seed: u64) -> (Vec<u8>, Vec<u8>) {
    use std::path::PathBuf;
    if private {
        let mut a = autonomi::client::files::archive::PrivateArchive::new();
        for i in 0..n as u64 {
            let dm = autonomi::client::data::DataMapChunk::from(fix::chunk(seed * 1000 + i, 40 + (i as usize % 30)));
            a.add_file(PathBuf::from(format!("dir{}/file-{seed}-{i}.bin", i % 3)), dm, archive_meta(i));
        }
        (a.to_bytes().expect("archive serialises").to_vec(), canon_private_archive(&a))
    } else {
        let mut a = autonomi::client::files::archive_public::PublicArchive::new();
        for i in 0..n as u64 {
            let addr = xor_name::XorName(fix::sha3(&(seed * 1000 + i).to_be_bytes()));
            a.add_file(PathBuf::from(format!("dir{}/file-{seed}-{i}.bin", i % 3)), addr, archive_meta(i));
        }
        (a.to_bytes().expect("archive serialises").to_vec(), canon_public_archive(&a))
    }
}

fn check_wrappers(case: &WrapCase, ctx: &mut Ctx) {
    let entrance = case.entrance % 3;
    // the honest object and the object a substituting holder would like the caller to see
    let (data, expect, decoy_data) = match entrance {
        0 => {
            let d = content_of(&Content::Mixed(case.seed), case.size as usize + 3);
            (d.clone(), d, content_of(&Content::Mixed(case.seed ^ 0x5a5a), case.size as usize + 10))
        }
        e => {
            let n = 1 + case.size as usize % 48;
            let (bytes, canon) = archive_bytes(e == 2, n, case.seed as u64);
            let (dbytes, _) = archive_bytes(e == 2, n + 1, case.seed as u64 ^ 0x77);
            (bytes, canon, dbytes)
        }
    };
    let Ok((dm, chunks)) = autonomi::self_encryption::encrypt(Bytes::from(data)) else {
        ctx.fail("encryptable_input_rejected", format!("entrance {entrance}, size {}", case.size));
        return;
    };
    let mut map: HashMap<Vec<u8>, Chunk> = HashMap::new();
    for c in chunks.iter().chain(std::iter::once(&dm)) {
        map.insert(key_of(c.name()).to_vec(), c.clone());
    }
    // the decoy is complete and fully served: its data map (for the public entrance) and all its chunks
    let decoy = match autonomi::self_encryption::encrypt(Bytes::from(decoy_data)) {
        Ok((dm2, chunks2)) => {
            for c in &chunks2 {
                map.entry(key_of(c.name()).to_vec()).or_insert_with(|| c.clone());
            }
            if entrance == 1 {
                dm2
            } else {
                chunks2[0].clone()
            }
        }
        Err(_) => fix::chunk(977 + case.seed as u64, 64),
    };
    let rop = match entrance {
        0 => ReadOp::DataPrivate(autonomi::client::data::DataMapChunk::from(dm.clone())),
        1 => ReadOp::ArchivePublic(*dm.name()),
        _ => ReadOp::ArchivePrivate(autonomi::client::data::DataMapChunk::from(dm.clone())),
    };
    let name = ["data_get", "archive_get_public", "archive_get"][entrance as usize];
    let (res, delivered_bad) = perform_read_op(&map, &decoy, rop, &case.corrupt, &case.order);
    ctx.label(name);
    ctx.label_if(delivered_bad > 0, "inauthentic_reply_delivered");
    ctx.label_if(res.is_ok(), "read_succeeded");
    ctx.label_if(res.is_ok() && delivered_bad > 0, "read_succeeded_despite_inauthentic_replies");
    ctx.nontrivial_if(delivered_bad > 0);
    ctx.canon = Some(format!("{case:?}"));
    ctx.sample = Some(serde_json::json!({"case": case, "entrance": name, "ok": res.is_ok(), "bad_replies_delivered": delivered_bad}));
    match res {
        Ok(bytes) => {
            if bytes != expect {
                ctx.fail(format!("{name}_returns_substituted_content"), format!("{name}: got {} canonical bytes that are not the object the requested address / data map describes ({delivered_bad} inauthentic replies delivered)", bytes.len()));
            }
        }
        Err(e) => {
            // every reply honest: the read is the harness's precondition for judging anything
            if delivered_bad == 0 {
                ctx.precondition_failed("honest_read_failed", format!("{name}: {e}"));
            }
        }
    }
}

// ------------------------------------------------------------------------------------------------
// vault
// ------------------------------------------------------------------------------------------------

#[derive(Clone, Copy, Debug, Serialize, Deserialize, PartialEq, Eq)]
pub enum PadKind {
    OwnerSigned,
    Unsigned,
    /// signed by another key over the right bytes
    SignedByOtherKey,
    /// the owner's signature, but over another counter (inflated counter)
    InflatedCounter,
    /// owned and validly signed by a foreign key, data encrypted to the requester
    ForeignOwner,
}

#[derive(Clone, Debug, Serialize, Deserialize)]
pub struct PadVer {
    pub counter: u8,
    pub kind: PadKind,
    pub data: u8,
}

#[derive(Clone, Debug, Serialize, Deserialize)]
pub struct VaultCase {
    pub versions: Vec<PadVer>,
    /// what each of the five holders returns (index into versions) or nothing
    pub holders: Vec<Option<u8>>,
    pub arrival: Vec<u16>,
    /// terminator: 0 finished, 1 not found, 2 timeout
    pub term: u8,
    /// read through `get_user_data_from_vault` (the vault holds serialised user data)
    #[serde(default)]
    pub user_data: bool,
}

fn vault_strategy() -> BoxedStrategy<VaultCase> {
    let ver = (
        1u8..7,
        prop_oneof![4 => Just(PadKind::OwnerSigned), 1 => Just(PadKind::Unsigned), 1 => Just(PadKind::SignedByOtherKey), 1 => Just(PadKind::InflatedCounter), 1 => Just(PadKind::ForeignOwner)],
        0u8..3,
    )
        .prop_map(|(counter, kind, data)| PadVer { counter, kind, data });
    (proptest::collection::vec(ver, 1..=4), proptest::collection::vec(proptest::option::weighted(0.85, 0u8..4), 5), proptest::collection::vec(any::<u16>(), 5), 0u8..3, prop_oneof![3 => Just(false), 1 => Just(true)])
        .prop_map(|(versions, holders, arrival, term, user_data)| VaultCase { versions, holders, arrival, term, user_data })
        .boxed()
}

const OWNER: u64 = 80;
const FOREIGN: u64 = 81;

fn plain_of(v: &PadVer) -> Vec<u8> {
    fix::pseudo_bytes(7000 + v.data as u64 * 10 + v.counter as u64, 33)
}

/// the user data a version holds in the `user_data` mode (distinct per (data, counter))
fn user_data_of(v: &PadVer) -> autonomi::client::vault::UserData {
    let mut ud = autonomi::client::vault::UserData::new();
    for i in 0..(1 + v.data as u64) {
        ud.add_file_archive_with_name(xor_name::XorName(fix::sha3(&(v.counter as u64 * 100 + v.data as u64 * 10 + i).to_be_bytes())), format!("archive-{}-{}-{i}", v.data, v.counter));
    }
    ud
}

fn canon_user_data(ud: &autonomi::client::vault::UserData) -> Vec<u8> {
    let mut e: Vec<String> = ud.file_archives.iter().map(|(a, n)| format!("pub|{}|{n}", hex::encode(a.0))).chain(ud.private_file_archives.iter().map(|(a, n)| format!("priv|{}|{n}", a.to_hex()))).collect();
    e.sort();
    e.join("\n").into_bytes()
}

/// what the caller should get back from version `v` (canonical form in the user-data mode)
fn expected_of(v: &PadVer, user_data: bool) -> Vec<u8> {
    if user_data {
        canon_user_data(&user_data_of(v))
    } else {
        plain_of(v)
    }
}

fn build_pad_mode(v: &PadVer, idx: usize, user_data: bool) -> Scratchpad {
    let (plain, enc) = if user_data {
        (user_data_of(v).to_bytes().expect("user data serialises").to_vec(), *autonomi::client::vault::user_data::USER_DATA_VAULT_CONTENT_IDENTIFIER)
    } else {
        (plain_of(v), 9)
    };
    let cipher = fix::encrypt_for(OWNER, &plain, 100 + idx as u64);
    match v.kind {
        PadKind::OwnerSigned => fix::scratchpad(OWNER, enc, cipher, v.counter as u64, fix::Sig::Valid),
        PadKind::Unsigned => fix::scratchpad(OWNER, enc, cipher, v.counter as u64, fix::Sig::Missing),
        PadKind::SignedByOtherKey => fix::scratchpad(OWNER, enc, cipher, v.counter as u64, fix::Sig::OtherKey),
        PadKind::InflatedCounter => fix::scratchpad(OWNER, enc, cipher, 40 + v.counter as u64, fix::Sig::OtherCounter),
        PadKind::ForeignOwner => fix::scratchpad(FOREIGN, enc, cipher, v.counter as u64, fix::Sig::Valid),
    }
}

fn check_vault(case: &VaultCase, ctx: &mut Ctx) {
    let key = fix::scratchpad_key(OWNER);
    let pads: Vec<Scratchpad> = case.versions.iter().enumerate().map(|(i, v)| build_pad_mode(v, i, case.user_data)).collect();
    let authentic: Vec<bool> = pads.iter().map(|p| fix::scratchpad_is_authentic(p, &fix::pk(OWNER))).collect();
    // arrival order of the holders' replies
    let mut order: Vec<usize> = (0..case.holders.len()).collect();
    for i in 0..order.len() {
        let j = i + pick_idx(case.arrival.get(i).copied().unwrap_or(0), order.len() - i);
        order.swap(i, j);
    }
    let mut delivered: Vec<usize> = vec![];
    let res = with_sim(|sim| {
        let client = sim.client.clone();
        let sk = fix::sk(OWNER);
        let user_data = case.user_data;
        let op = sim.spawn(async move {
            if user_data {
                client.get_user_data_from_vault(&sk).await.map(|ud| (canon_user_data(&ud), 0)).map_err(|e| format!("{e:?}"))
            } else {
                client.fetch_and_decrypt_vault(&sk).await.map(|(b, t)| (b.to_vec(), t)).map_err(|e| format!("{e:?}"))
            }
        });
        let mut served = false;
        let ok = sim.drive(&op, |sim| {
            let (id, k) = (sim.outstanding[0].id, sim.outstanding[0].key.clone());
            if served {
                // a second read is not expected; end it
                sim.terminate(id, &k, Term::NotFound);
                return;
            }
            served = true;
            for h in &order {
                if !sim.is_pending(&id) {
                    break;
                }
                if let Some(vi) = case.holders[*h] {
                    let vi = vi as usize % pads.len();
                    // every holder presents its version under the requested key
                    let value = try_serialize_record(&pads[vi], RecordKind::Scratchpad).unwrap().to_vec();
                    sim.reply(id, Some(fix::peer(10 + *h as u64)), fix::record(k.clone(), value));
                    delivered.push(vi);
                }
            }
            if sim.is_pending(&id) {
                let t = match case.term % 3 {
                    0 => Term::Finished,
                    1 => Term::NotFound,
                    _ => Term::Timeout,
                };
                sim.terminate(id, &k, t);
            }
        });
        if !ok {
            return Err("client made no progress".into());
        }
        op.take().unwrap()
    });
    let distinct_delivered: std::collections::BTreeSet<usize> = delivered.iter().copied().collect();
    let auth_delivered: Vec<usize> = distinct_delivered.iter().copied().filter(|i| authentic[*i]).collect();
    let best = auth_delivered.iter().map(|i| pads[*i].count()).max();
    ctx.label_if(distinct_delivered.len() >= 2, "two_or_more_versions_delivered");
    ctx.label_if(distinct_delivered.iter().any(|i| !authentic[*i]), "inauthentic_version_delivered");
    ctx.label_if(auth_delivered.is_empty(), "no_authentic_version_delivered");
    ctx.label(if case.user_data { "get_user_data_from_vault" } else { "fetch_and_decrypt_vault" });
    ctx.label_if(res.is_ok(), "read_succeeded");
    for v in &case.versions {
        ctx.label(format!("version_{:?}", v.kind));
    }
    ctx.nontrivial_if(distinct_delivered.len() >= 2 || distinct_delivered.iter().any(|i| !authentic[*i]));
    ctx.sample = Some(serde_json::json!({"case": case, "delivered": delivered, "ok": res.is_ok()}));
    if let Ok((bytes, _enc)) = res {
        if auth_delivered.is_empty() {
            let kinds: Vec<PadKind> = distinct_delivered.iter().map(|i| case.versions[*i].kind).collect();
            ctx.fail("vault_returns_unauthenticated_data", format!("no authentic version was delivered (delivered kinds {kinds:?}), yet the vault read returned {} bytes", bytes.len()));
            return;
        }
        let from: Vec<usize> = (0..pads.len()).filter(|i| distinct_delivered.contains(i) && expected_of(&case.versions[*i], case.user_data) == bytes).collect();
        if from.is_empty() {
            ctx.fail("vault_returns_bytes_of_no_delivered_version", format!("{} bytes", bytes.len()));
        } else if !from.iter().any(|i| authentic[*i]) {
            let kinds: Vec<PadKind> = from.iter().map(|i| case.versions[*i].kind).collect();
            ctx.fail("vault_returns_unauthenticated_data", format!("returned the content of a version that is not owned-and-signed by the requested key ({kinds:?}) although authentic versions were delivered"));
        } else if !from.iter().any(|i| authentic[*i] && Some(pads[*i].count()) == best) {
            ctx.fail("vault_returns_lower_counter_than_highest_authentic", format!("returned counter {:?}, highest authentic delivered {best:?}", from.iter().map(|i| pads[*i].count()).collect::<Vec<_>>()));
        }
    }
}

pub fn run(cfg: RunCfg) {
    let small = crate::c14::max_chunk() < 1 << 20;
    let mut rep = Report::new(cfg.clone(), "exploration");
    rep.rule = "C15: adversarial reply sets for chunk_get / data_get_public (other valid chunk, wrong kind, garbage, truncated, other key) and for fetch_and_decrypt_vault (5 holders x <=4 scratchpad versions: owner-signed, unsigned, signed by another key, inflated counter with a signature over another counter, foreign-owned but encrypted to the requester), generated arrival order and terminator; replies enter at the kad-event seam of the real client driver.".into();
    rep.assumptions = vec![
        "a read that ends in an error is always acceptable; only returned data is judged (plus: no authentic version => error)".into(),
        "authenticity is recomputed in the harness: owner key equals the requested key and BLS signature over counter || SHA3(data)".into(),
        "'received' versions are those delivered before the query completed".into(),
    ];
    if !small {
        vh_core::section!(
            rep, "chunks", (20_000, 600_000), 16,
            "non-trivial: >=1 inauthentic reply delivered before completion; distinct by (mode, length, corruption plan, order)",
            chunk_strategy, check_chunks
        );
        vh_core::section!(
            rep, "vault", (6_000, 300_000), 16,
            "non-trivial: >=2 distinct versions delivered or an inauthentic one delivered; distinct by whole case",
            vault_strategy, check_vault
        );
        vh_core::section!(
            rep, "wrappers", (6_000, 200_000), 16,
            "the other read entrances (data_get with a caller-held data map, archive_get_public, archive_get) against the same substituted replies; the decoy object is complete and fully served. non-trivial: >=1 inauthentic reply delivered; distinct by whole case",
            wrap_strategy, check_wrappers
        );
        vh_core::section!(
            rep, "reread", (4_000, 120_000), 16,
            "one client, 2..4 reads (chunk_get / data_get_public) over the addresses of two blobs, each read with its own substituted replies (the other blob's complete data map / chunk, wrong kinds, garbage ...): every successful read must be authentic whatever earlier reads left behind. non-trivial: an address read again after inauthentic replies were delivered for it",
            reread_strategy, check_reread
        );
        crate::c14::run_small_chunk_child(&mut rep, &cfg, "C15");
    } else {
        vh_core::section!(
            rep, "chunks_small_chunks", (3_000, 100_000), 16,
            "as 'chunks', in the MAX_CHUNK_SIZE=1024 build (multi-chunk data maps with small inputs)",
            chunk_strategy, check_chunks
        );
    }
    rep.finish();
}
