//! vh-core: the shared runner of the /verif harness.
//!
//! * seeds: every run is a pure function of (/repo tree, VERIF_SEED, tier); each worker of each
//!   section gets a ChaCha `TestRng` seeded from splitmix64(seed, property, section, worker)
//! * generation + shrinking: proptest strategies / value trees, driven by our own loop so that case
//!   counting stops at the first failure and time budgets end a section without a verdict
//! * accounting: evaluations, distinct non-trivial cases (hash set of canonical forms), label
//!   histogram, samples, cases excluded because they only hit a known finding
//! * known findings: `/verif/known_findings.json` (never written here)
//! * replay: shrunk failing case is written to `/verif/replays/*.json`, `--replay` re-runs it
//! * exit codes: 0 held, 1 violation (`VIOLATION property=<id> replay=<path>`), 2 inconclusive

pub use proptest;
pub use serde;
pub use serde_json;

pub mod secfuzz;

use proptest::strategy::{BoxedStrategy, Strategy, ValueTree};
use proptest::test_runner::{Config, RngAlgorithm, TestRng, TestRunner};
use serde::{de::DeserializeOwned, Serialize};
use serde_json::{json, Value};
use std::cell::RefCell;
use std::collections::{BTreeMap, HashSet};
use std::fmt::Debug;
use std::hash::{Hash, Hasher};
use std::panic::{catch_unwind, AssertUnwindSafe};
use std::path::{Path, PathBuf};
use std::sync::atomic::{AtomicBool, AtomicU64, Ordering};
use std::sync::Mutex;
use std::time::{Duration, Instant};

// ------------------------------------------------------------------------------------------------
// configuration
// ------------------------------------------------------------------------------------------------

#[derive(Clone, Copy, Debug, PartialEq, Eq)]
pub enum Tier {
    Quick,
    Thorough,
}

impl Tier {
    pub fn as_str(&self) -> &'static str {
        match self {
            Tier::Quick => "quick",
            Tier::Thorough => "thorough",
        }
    }
    pub fn pick<T>(&self, quick: T, thorough: T) -> T {
        match self {
            Tier::Quick => quick,
            Tier::Thorough => thorough,
        }
    }
}

#[derive(Clone, Debug)]
pub struct RunCfg {
    pub prop: String,
    pub tier: Tier,
    pub seed: u64,
    pub replay: Option<PathBuf>,
    /// multiply every section's case count (testing the harness itself)
    pub scale: f64,
    pub workers: usize,
    pub root: PathBuf,
    /// only run sections whose name contains this
    pub only: Option<String>,
    /// wall-clock cap for the whole thorough run in seconds; expiry = stop, not fail
    pub budget_s: u64,
}

impl RunCfg {
    pub fn from_args() -> RunCfg {
        let mut prop = String::new();
        let mut tier = match std::env::var("VERIF_TIER").ok().as_deref() {
            Some("thorough") => Tier::Thorough,
            _ => Tier::Quick,
        };
        let mut seed: u64 = std::env::var("VERIF_SEED")
            .ok()
            .and_then(|s| s.trim().parse::<i128>().ok())
            .map(|v| v as u64)
            .unwrap_or(0);
        let mut replay = None;
        let mut scale = std::env::var("VERIF_SCALE")
            .ok()
            .and_then(|s| s.parse().ok())
            .unwrap_or(1.0);
        let mut workers = std::env::var("VERIF_WORKERS")
            .ok()
            .and_then(|s| s.parse().ok())
            .unwrap_or_else(|| {
                std::thread::available_parallelism()
                    .map(|n| n.get())
                    .unwrap_or(8)
                    .min(16)
            });
        let mut only = std::env::var("VERIF_ONLY").ok();
        let mut budget_s = std::env::var("VERIF_BUDGET_S")
            .ok()
            .and_then(|s| s.parse().ok())
            .unwrap_or(0);
        let root = PathBuf::from(std::env::var("VERIF_ROOT").unwrap_or_else(|_| "/verif".into()));
        let mut args = std::env::args().skip(1);
        while let Some(a) = args.next() {
            match a.as_str() {
                "--prop" => prop = args.next().expect("--prop <id>"),
                "--tier" => {
                    tier = match args.next().as_deref() {
                        Some("thorough") => Tier::Thorough,
                        Some("quick") => Tier::Quick,
                        other => panic!("bad tier {other:?}"),
                    }
                }
                "--seed" => seed = args.next().and_then(|s| s.parse().ok()).expect("--seed <n>"),
                "--replay" => replay = Some(PathBuf::from(args.next().expect("--replay <path>"))),
                "--scale" => scale = args.next().and_then(|s| s.parse().ok()).expect("--scale <f>"),
                "--workers" => {
                    workers = args.next().and_then(|s| s.parse().ok()).expect("--workers <n>")
                }
                "--only" => only = args.next(),
                "--budget" => {
                    budget_s = args.next().and_then(|s| s.parse().ok()).expect("--budget <s>")
                }
                other => panic!("unknown argument {other}"),
            }
        }
        if budget_s == 0 {
            budget_s = match tier {
                Tier::Quick => 900,
                Tier::Thorough => 3 * 3600,
            };
        }
        RunCfg {
            prop,
            tier,
            seed,
            replay,
            scale,
            workers: workers.max(1),
            root,
            only,
            budget_s,
        }
    }
}

// ------------------------------------------------------------------------------------------------
// per-case context
// ------------------------------------------------------------------------------------------------

#[derive(Clone, Debug, Serialize, serde::Deserialize)]
pub struct Failure {
    /// stable signature: identifies the root cause class, used to match known findings
    pub sig: String,
    pub detail: String,
}

#[derive(Default)]
pub struct Ctx {
    pub nontrivial: bool,
    pub labels: Vec<String>,
    pub failures: Vec<Failure>,
    /// optional canonical form used for the distinct count instead of the Debug form of the case
    pub canon: Option<String>,
    /// optional rendering of the case for `samples`
    pub sample: Option<Value>,
    pub precondition_notes: Vec<String>,
}

static PRECONDITION_PRINTS: std::sync::atomic::AtomicUsize = std::sync::atomic::AtomicUsize::new(0);

impl Ctx {
    pub fn label(&mut self, l: impl Into<String>) {
        self.labels.push(l.into());
    }
    pub fn label_if(&mut self, c: bool, l: &str) {
        if c {
            self.labels.push(l.to_string());
        }
    }
    pub fn nontrivial(&mut self) {
        self.nontrivial = true;
    }
    pub fn nontrivial_if(&mut self, c: bool) {
        if c {
            self.nontrivial = true;
        }
    }
    pub fn fail(&mut self, sig: impl Into<String>, detail: impl Into<String>) {
        // keep the list bounded: a stateful case can fail the same way at many steps
        if self.failures.len() < 16 {
            self.failures.push(Failure {
                sig: sig.into(),
                detail: detail.into(),
            });
        }
    }
    /// Something the HARNESS relies on but the property does not demand (e.g. "a perfectly valid upload
    /// is accepted" under a statement that only says when data must NOT be stored) did not hold: the
    /// case cannot be judged. Counted under the label `inconclusive_precondition/<sig>`; never a
    /// violation. A section with > 20 % inconclusive cases makes the run exit 2.
    pub fn precondition_failed(&mut self, sig: impl Into<String>, detail: impl Into<String>) {
        let sig = sig.into();
        if self.precondition_notes.len() < 4 {
            self.precondition_notes.push(format!("{sig}: {}", detail.into()));
        }
        self.labels.push(format!("inconclusive_precondition/{sig}"));
    }
    /// returns `cond` so that callers can bail out of a step
    pub fn check(&mut self, cond: bool, sig: &str, detail: impl FnOnce() -> String) -> bool {
        if !cond {
            self.fail(sig, detail());
        }
        cond
    }
    /// Run `f`; a panic inside it is a failure with signature `panic:<what>`.
    pub fn no_panic<R>(&mut self, what: &str, f: impl FnOnce() -> R) -> Option<R> {
        match catch_panic(f) {
            Ok(r) => Some(r),
            Err(msg) => {
                self.fail(format!("panic:{what}"), msg);
                None
            }
        }
    }
    pub fn failed(&self) -> bool {
        !self.failures.is_empty()
    }
}

// ------------------------------------------------------------------------------------------------
// panic capture
// ------------------------------------------------------------------------------------------------

thread_local! {
    static LAST_PANIC: RefCell<Option<String>> = const { RefCell::new(None) };
    static CAPTURING: RefCell<u32> = const { RefCell::new(0) };
}

static HOOK_INSTALLED: AtomicBool = AtomicBool::new(false);

pub fn install_panic_hook() {
    if HOOK_INSTALLED.swap(true, Ordering::SeqCst) {
        return;
    }
    let prev = std::panic::take_hook();
    std::panic::set_hook(Box::new(move |info| {
        let loc = info
            .location()
            .map(|l| format!("{}:{}", l.file(), l.line()))
            .unwrap_or_else(|| "?".into());
        let msg = if let Some(s) = info.payload().downcast_ref::<&str>() {
            s.to_string()
        } else if let Some(s) = info.payload().downcast_ref::<String>() {
            s.clone()
        } else {
            "<non-string panic>".into()
        };
        let capturing = CAPTURING.with(|c| *c.borrow() > 0);
        if capturing {
            LAST_PANIC.with(|p| *p.borrow_mut() = Some(format!("{loc}: {msg}")));
            if std::env::var_os("VERIF_VERBOSE").is_some() {
                eprintln!("[captured panic] {loc}: {msg}");
            }
        } else {
            prev(info);
        }
    }));
}

/// Run `f`, turning a panic into `Err("<file>:<line>: <message>")`.
pub fn catch_panic<R>(f: impl FnOnce() -> R) -> Result<R, String> {
    install_panic_hook();
    CAPTURING.with(|c| *c.borrow_mut() += 1);
    let r = catch_unwind(AssertUnwindSafe(f));
    CAPTURING.with(|c| *c.borrow_mut() -= 1);
    match r {
        Ok(v) => Ok(v),
        Err(_) => Err(LAST_PANIC
            .with(|p| p.borrow_mut().take())
            .unwrap_or_else(|| "panic (no message)".into())),
    }
}

/// `path/to/file.rs` part of a captured panic message (used for generic signatures)
fn panic_file(msg: &str) -> String {
    let first = msg.split(": ").next().unwrap_or("?");
    let file = first.rsplitn(2, ':').last().unwrap_or(first);
    // strip registry / repo prefixes so the signature is stable across checkouts
    let file = file.rsplit("/repo/").next().unwrap_or(file);
    file.to_string()
}

// ------------------------------------------------------------------------------------------------
// known findings
// ------------------------------------------------------------------------------------------------

#[derive(Clone, Debug, serde::Deserialize)]
pub struct KnownFinding {
    pub property: String,
    pub section: String,
    pub signature: String,
    pub what: String,
    #[serde(default)]
    pub repro: Value,
}

#[derive(Clone, Debug, Default, serde::Deserialize)]
pub struct KnownFile {
    #[serde(default)]
    pub findings: Vec<KnownFinding>,
    #[serde(default)]
    pub fixed: Vec<String>,
}

pub fn load_known(root: &Path, prop: &str) -> Vec<KnownFinding> {
    // the committed file, plus per-property drafts under known_findings.d/ (development only)
    let mut files = vec![root.join("known_findings.json")];
    if let Ok(rd) = std::fs::read_dir(root.join("known_findings.d")) {
        let mut extra: Vec<PathBuf> = rd.filter_map(|e| e.ok().map(|e| e.path())).collect();
        extra.sort();
        files.extend(extra);
    }
    let mut out = vec![];
    for p in files {
        let Ok(txt) = std::fs::read_to_string(&p) else {
            continue;
        };
        let kf: KnownFile = serde_json::from_str(&txt).unwrap_or_else(|e| {
            eprintln!("cannot parse {}: {e}", p.display());
            std::process::exit(2);
        });
        out.extend(kf.findings.into_iter().filter(|f| f.property == prop));
    }
    out
}

// ------------------------------------------------------------------------------------------------
// statistics
// ------------------------------------------------------------------------------------------------

#[derive(Default)]
pub struct SectionStats {
    pub name: String,
    pub evaluations: u64,
    pub nontrivial_hashes: HashSet<u64>,
    pub classes: BTreeMap<String, u64>,
    pub samples: Vec<Value>,
    pub excluded_known: u64,
    pub stopped_by_budget: bool,
    pub exhaustive: bool,
    pub wall_s: f64,
    pub rule: String,
    pub extra: BTreeMap<String, Value>,
    /// distinct non-trivial count measured elsewhere (a child process), added to the hash-set size
    pub distinct_extra: u64,
}

impl SectionStats {
    pub fn distinct(&self) -> u64 {
        self.nontrivial_hashes.len() as u64 + self.distinct_extra
    }

    fn merge(&mut self, o: SectionStats) {
        self.evaluations += o.evaluations;
        self.nontrivial_hashes.extend(o.nontrivial_hashes);
        for (k, v) in o.classes {
            *self.classes.entry(k).or_default() += v;
        }
        for s in o.samples {
            if self.samples.len() < 4 {
                self.samples.push(s);
            }
        }
        self.excluded_known += o.excluded_known;
        self.stopped_by_budget |= o.stopped_by_budget;
    }
}

pub struct Violation {
    pub section: String,
    pub failure: Failure,
    pub replay: PathBuf,
}

pub fn stable_hash<T: Hash + ?Sized>(t: &T) -> u64 {
    // SipHash with the fixed default keys: deterministic across runs
    #[allow(deprecated)]
    let mut h = std::hash::SipHasher::new_with_keys(0x7665_7269_665f_6861, 0x726e_6573_735f_3031);
    t.hash(&mut h);
    h.finish()
}

pub fn splitmix64(mut x: u64) -> u64 {
    x = x.wrapping_add(0x9e37_79b9_7f4a_7c15);
    let mut z = x;
    z = (z ^ (z >> 30)).wrapping_mul(0xbf58_476d_1ce4_e5b9);
    z = (z ^ (z >> 27)).wrapping_mul(0x94d0_49bb_1331_11eb);
    z ^ (z >> 31)
}

pub fn derive_seed(seed: u64, prop: &str, section: &str, worker: u64) -> [u8; 32] {
    let mut s = splitmix64(seed ^ stable_hash(prop));
    s = splitmix64(s ^ stable_hash(section));
    s = splitmix64(s ^ worker.wrapping_mul(0x1234_5678_9abc_def1));
    let mut out = [0u8; 32];
    for i in 0..4 {
        s = splitmix64(s);
        out[i * 8..i * 8 + 8].copy_from_slice(&s.to_le_bytes());
    }
    out
}

fn truncate_value(v: Value, max: usize) -> Value {
    match v {
        Value::String(s) if s.len() > max => {
            let mut cut = max;
            while !s.is_char_boundary(cut) {
                cut -= 1;
            }
            Value::String(format!("{}…(+{} bytes)", &s[..cut], s.len() - cut))
        }
        Value::Array(a) => {
            let n = a.len();
            let mut out: Vec<Value> = a
                .into_iter()
                .take(48)
                .map(|x| truncate_value(x, max))
                .collect();
            if n > 48 {
                out.push(Value::String(format!("…(+{} items)", n - 48)));
            }
            Value::Array(out)
        }
        Value::Object(o) => Value::Object(
            o.into_iter()
                .map(|(k, v)| (k, truncate_value(v, max)))
                .collect(),
        ),
        other => other,
    }
}

// ------------------------------------------------------------------------------------------------
// the report / run driver
// ------------------------------------------------------------------------------------------------

pub struct Report {
    pub cfg: RunCfg,
    pub level: &'static str,
    pub rule: String,
    pub assumptions: Vec<String>,
    pub sections: Vec<SectionStats>,
    pub violations: Vec<Violation>,
    pub known: Vec<KnownFinding>,
    pub known_seen: Mutex<HashSet<String>>,
    pub start: Instant,
    pub inconclusive: Vec<String>,
    pub extra: BTreeMap<String, Value>,
}

/// A generated sub-check of a property.
pub struct Section<'a, T> {
    pub name: &'a str,
    /// number of cases in the quick / thorough tier
    pub cases: (u64, u64),
    pub strategy: &'a (dyn Fn() -> BoxedStrategy<T> + Sync),
    pub check: &'a (dyn Fn(&T, &mut Ctx) + Sync),
    pub rule: &'a str,
    /// workers to use at most (sims that bind sockets etc. may want fewer)
    pub max_workers: usize,
}

impl Report {
    pub fn new(cfg: RunCfg, level: &'static str) -> Report {
        install_panic_hook();
        DEEP.store(cfg.tier == Tier::Thorough, Ordering::Relaxed);
        let known = load_known(&cfg.root, &cfg.prop);
        let budget = cfg.budget_s;
        // watchdog: a hang is "inconclusive" (exit 2), never a violation
        std::thread::spawn(move || {
            std::thread::sleep(Duration::from_secs(budget + 600));
            eprintln!("watchdog: run exceeded its budget by 10 minutes; inconclusive");
            std::process::exit(2);
        });
        Report {
            cfg,
            level,
            rule: String::new(),
            assumptions: vec![],
            sections: vec![],
            violations: vec![],
            known,
            known_seen: Mutex::new(HashSet::new()),
            start: Instant::now(),
            inconclusive: vec![],
            extra: BTreeMap::new(),
        }
    }

    pub fn tier(&self) -> Tier {
        self.cfg.tier
    }

    pub fn budget_left(&self) -> Duration {
        Duration::from_secs(self.cfg.budget_s).saturating_sub(self.start.elapsed())
    }

    pub fn is_known(&self, section: &str, sig: &str) -> bool {
        self.known
            .iter()
            .any(|k| k.signature == sig && (k.section == section || k.section == "*"))
    }

    fn run_case<T>(&self, sec: &Section<T>, case: &T) -> Ctx {
        let mut ctx = Ctx::default();
        let r = catch_panic(|| (sec.check)(case, &mut ctx));
        if let Err(msg) = r {
            ctx.fail(format!("panic:{}", panic_file(&msg)), msg);
        }
        ctx
    }

    /// failures of `ctx` that are not listed as known findings
    fn unknown_failures(&self, section: &str, ctx: &Ctx) -> Vec<Failure> {
        ctx.failures
            .iter()
            .filter(|f| !self.is_known(section, &f.sig))
            .cloned()
            .collect()
    }

    fn wants(&self, name: &str) -> bool {
        match &self.cfg.only {
            Some(o) => name.contains(o.as_str()),
            None => true,
        }
    }

    /// Run one generated section over all workers. Returns true if it held.
    pub fn run<T>(&mut self, sec: Section<T>) -> bool
    where
        T: Debug + Clone + Serialize + DeserializeOwned + Send + 'static,
    {
        if !self.wants(sec.name) {
            return true;
        }
        // replay mode: only the named section runs, on the stored case
        if let Some(path) = self.cfg.replay.clone() {
            return self.replay_file(&sec, &path);
        }
        let t0 = Instant::now();
        self.replay_known(&sec);
        self.replay_regressions(&sec);

        let total = ((self.cfg.tier.pick(sec.cases.0, sec.cases.1) as f64) * self.cfg.scale)
            .ceil()
            .max(1.0) as u64;
        let workers = self.cfg.workers.min(sec.max_workers.max(1)).min(total as usize).max(1);
        let per = total / workers as u64;
        let extra = total % workers as u64;
        let stop = AtomicBool::new(false);
        let deadline = Instant::now() + self.budget_left();
        let results: Mutex<Vec<(SectionStats, Option<(T, Vec<Failure>)>)>> = Mutex::new(vec![]);
        let this: &Report = self;
        let secr = &sec;
        std::thread::scope(|scope| {
            for w in 0..workers {
                let n = per + if (w as u64) < extra { 1 } else { 0 };
                let stop = &stop;
                let results = &results;
                std::thread::Builder::new()
                    .name(format!("{}-{}-w{}", this.cfg.prop, secr.name, w))
                    .stack_size(16 << 20)
                    .spawn_scoped(scope, move || {
                        let r = this.worker(secr, w as u64, n, stop, deadline);
                        results.lock().unwrap().push(r);
                    })
                    .expect("spawn worker");
            }
        });
        let mut stats = SectionStats {
            name: sec.name.to_string(),
            rule: sec.rule.to_string(),
            ..Default::default()
        };
        let mut first_fail: Option<(T, Vec<Failure>)> = None;
        let mut results = results.into_inner().unwrap();
        // deterministic merge order irrespective of thread finish order
        results.sort_by_key(|(s, _)| s.name.clone());
        for (s, f) in results {
            stats.merge(s);
            if first_fail.is_none() {
                first_fail = f;
            }
        }
        stats.wall_s = t0.elapsed().as_secs_f64();
        let held = first_fail.is_none();
        if let Some((case, fails)) = first_fail {
            let f = fails[0].clone();
            let path = self.write_replay(sec.name, &case, &fails);
            println!(
                "VIOLATION property={} replay={} section={} sig={} :: {}",
                self.cfg.prop,
                path.display(),
                sec.name,
                f.sig,
                one_line(&f.detail, 400)
            );
            self.violations.push(Violation {
                section: sec.name.to_string(),
                failure: f,
                replay: path,
            });
        }
        if stats.stopped_by_budget {
            self.inconclusive
                .push(format!("section {} stopped by time budget", sec.name));
        }
        eprintln!(
            "[{} {}] {} evals, {} distinct non-trivial, {} excluded-known, {:.1}s{}",
            self.cfg.prop,
            sec.name,
            stats.evaluations,
            stats.nontrivial_hashes.len(),
            stats.excluded_known,
            stats.wall_s,
            if held { "" } else { "  ** VIOLATION **" }
        );
        if std::env::var_os("VERIF_LABELS").is_some() {
            // development aid: the section's label histogram (it is in the evidence file of a full run)
            for (k, v) in &stats.classes {
                eprintln!("    {v:>9}  {k}");
            }
        }
        self.sections.push(stats);
        held
    }

    fn worker<T>(
        &self,
        sec: &Section<T>,
        w: u64,
        n: u64,
        stop: &AtomicBool,
        deadline: Instant,
    ) -> (SectionStats, Option<(T, Vec<Failure>)>)
    where
        T: Debug + Clone + Serialize + DeserializeOwned + Send + 'static,
    {
        let mut stats = SectionStats {
            name: format!("{w:04}"),
            ..Default::default()
        };
        let seed = derive_seed(self.cfg.seed, &self.cfg.prop, sec.name, w);
        let rng = TestRng::from_seed(RngAlgorithm::ChaCha, &seed);
        let config = Config {
            failure_persistence: None,
            max_shrink_iters: 4096,
            ..Config::default()
        };
        let mut runner = TestRunner::new_with_rng(config, rng);
        let strat = (sec.strategy)();
        for i in 0..n {
            if stop.load(Ordering::Relaxed) {
                break;
            }
            if i % 16 == 0 && Instant::now() > deadline {
                stats.stopped_by_budget = true;
                break;
            }
            let tree = match strat.new_tree(&mut runner) {
                Ok(t) => t,
                Err(e) => {
                    eprintln!("generator rejected too much in {}: {e}", sec.name);
                    std::process::exit(2);
                }
            };
            let case = tree.current();
            let ctx = self.run_case(sec, &case);
            stats.evaluations += 1;
            for l in &ctx.labels {
                *stats.classes.entry(l.clone()).or_default() += 1;
            }
            for n in &ctx.precondition_notes {
                if PRECONDITION_PRINTS.fetch_add(1, Ordering::Relaxed) < 6 {
                    eprintln!("[{} {}] harness precondition did not hold (case not judged, NOT a violation): {}", self.cfg.prop, sec.name, one_line(n, 300));
                }
            }
            if ctx.nontrivial {
                let h = match &ctx.canon {
                    Some(c) => stable_hash(c),
                    None => stable_hash(&format!("{case:?}")),
                };
                let fresh = stats.nontrivial_hashes.insert(h);
                if fresh && stats.samples.len() < 2 && (w < 2) {
                    let v = ctx
                        .sample
                        .clone()
                        .unwrap_or_else(|| serde_json::to_value(&case).unwrap_or(Value::Null));
                    stats.samples.push(truncate_value(v, 240));
                }
            }
            if ctx.failed() {
                let unknown = self.unknown_failures(sec.name, &ctx);
                if unknown.is_empty() {
                    stats.excluded_known += 1;
                    let mut seen = self.known_seen.lock().unwrap();
                    for f in &ctx.failures {
                        seen.insert(f.sig.clone());
                    }
                    continue;
                }
                // first real failure: stop everybody, shrink here
                stop.store(true, Ordering::Relaxed);
                let (min_case, fails) = self.shrink(sec, tree, case, unknown);
                return (stats, Some((min_case, fails)));
            }
        }
        (stats, None)
    }

    fn shrink<T, VT>(
        &self,
        sec: &Section<T>,
        mut tree: VT,
        first: T,
        first_fails: Vec<Failure>,
    ) -> (T, Vec<Failure>)
    where
        T: Debug + Clone,
        VT: ValueTree<Value = T>,
    {
        let mut best = (first, first_fails);
        let t0 = Instant::now();
        let mut iters = 0u32;
        if tree.simplify() {
            loop {
                iters += 1;
                if iters > 3000 || t0.elapsed() > Duration::from_secs(120) {
                    break;
                }
                let cur = tree.current();
                let ctx = self.run_case(sec, &cur);
                let unknown = self.unknown_failures(sec.name, &ctx);
                if unknown.is_empty() {
                    if !tree.complicate() {
                        break;
                    }
                } else {
                    best = (cur, unknown);
                    if !tree.simplify() {
                        break;
                    }
                }
            }
        }
        best
    }

    fn write_replay<T: Serialize>(&self, section: &str, case: &T, fails: &[Failure]) -> PathBuf {
        let dir = self.cfg.root.join("replays");
        let _ = std::fs::create_dir_all(&dir);
        let sig = &fails[0].sig;
        let clean: String = sig
            .chars()
            .map(|c| if c.is_ascii_alphanumeric() { c } else { '_' })
            .take(60)
            .collect();
        let path = dir.join(format!("{}-{}-{}.json", self.cfg.prop, section, clean));
        let doc = json!({
            "property": self.cfg.prop,
            "section": section,
            "signature": sig,
            "failures": fails,
            "seed": self.cfg.seed,
            "tier": self.cfg.tier.as_str(),
            "case": case,
        });
        let _ = std::fs::write(&path, serde_json::to_string_pretty(&doc).unwrap());
        path
    }

    /// `--replay <file>`: run the stored case through the same check, bypassing proptest.
    fn replay_file<T>(&mut self, sec: &Section<T>, path: &Path) -> bool
    where
        T: Debug + Clone + Serialize + DeserializeOwned,
    {
        let txt = match std::fs::read_to_string(path) {
            Ok(t) => t,
            Err(e) => {
                eprintln!("cannot read replay {}: {e}", path.display());
                std::process::exit(2);
            }
        };
        let doc: Value = serde_json::from_str(&txt).expect("replay json");
        if doc["section"].as_str() != Some(sec.name) {
            return true;
        }
        let case: T = match serde_json::from_value(doc["case"].clone()) {
            Ok(c) => c,
            Err(e) => {
                eprintln!("replay case does not decode for section {}: {e}", sec.name);
                std::process::exit(2);
            }
        };
        let ctx = self.run_case(sec, &case);
        let mut st = SectionStats {
            name: sec.name.to_string(),
            rule: format!("replay of {}", path.display()),
            evaluations: 1,
            ..Default::default()
        };
        st.samples.push(truncate_value(doc["case"].clone(), 240));
        self.sections.push(st);
        let mut held = true;
        for f in &ctx.failures {
            if self.is_known(sec.name, &f.sig) {
                println!(
                    "KNOWN-FINDING: property={} section={} sig={} {}",
                    self.cfg.prop,
                    sec.name,
                    f.sig,
                    one_line(&f.detail, 300)
                );
            } else {
                held = false;
                println!(
                    "VIOLATION property={} replay={} section={} sig={} :: {}",
                    self.cfg.prop,
                    path.display(),
                    sec.name,
                    f.sig,
                    one_line(&f.detail, 400)
                );
                self.violations.push(Violation {
                    section: sec.name.to_string(),
                    failure: f.clone(),
                    replay: path.to_path_buf(),
                });
            }
        }
        held
    }

    /// Re-execute each listed finding's stored repro; print KNOWN-FINDING if it still reproduces.
    fn replay_known<T>(&mut self, sec: &Section<T>)
    where
        T: Debug + Clone + Serialize + DeserializeOwned,
    {
        let mine: Vec<KnownFinding> = self
            .known
            .iter()
            .filter(|k| k.section == sec.name)
            .cloned()
            .collect();
        for k in mine {
            if k.repro.is_null() {
                continue;
            }
            let case: T = match serde_json::from_value(k.repro.clone()) {
                Ok(c) => c,
                Err(e) => {
                    eprintln!(
                        "known finding {} / {}: repro does not decode: {e}",
                        k.property, k.signature
                    );
                    continue;
                }
            };
            let ctx = self.run_case(sec, &case);
            if ctx.failures.iter().any(|f| f.sig == k.signature) {
                self.known_seen.lock().unwrap().insert(k.signature.clone());
            }
            // any *other* failure of the stored repro is a real violation
            for f in self.unknown_failures(sec.name, &ctx) {
                let path = self.write_replay(sec.name, &case, &[f.clone()]);
                println!(
                    "VIOLATION property={} replay={} section={} sig={} :: {}",
                    self.cfg.prop,
                    path.display(),
                    sec.name,
                    f.sig,
                    one_line(&f.detail, 400)
                );
                self.violations.push(Violation {
                    section: sec.name.to_string(),
                    failure: f,
                    replay: path,
                });
            }
        }
    }

    /// Seconds-long regression tier: every case under /verif/regress/<prop>/ for this section
    /// (shrunk failures found against seeded changes) must pass on the current tree.
    fn replay_regressions<T>(&mut self, sec: &Section<T>)
    where
        T: Debug + Clone + Serialize + DeserializeOwned,
    {
        let dir = self.cfg.root.join("regress").join(&self.cfg.prop);
        let Ok(rd) = std::fs::read_dir(&dir) else {
            return;
        };
        let mut files: Vec<PathBuf> = rd.filter_map(|e| e.ok().map(|e| e.path())).collect();
        files.sort();
        let mut n = 0u64;
        for p in files {
            let Ok(txt) = std::fs::read_to_string(&p) else {
                continue;
            };
            let Ok(doc) = serde_json::from_str::<Value>(&txt) else {
                continue;
            };
            if doc["section"].as_str() != Some(sec.name) {
                continue;
            }
            let Ok(case) = serde_json::from_value::<T>(doc["case"].clone()) else {
                eprintln!("regression case {} no longer decodes; skipped", p.display());
                continue;
            };
            n += 1;
            let ctx = self.run_case(sec, &case);
            for f in self.unknown_failures(sec.name, &ctx) {
                println!(
                    "VIOLATION property={} replay={} section={} sig={} :: {}",
                    self.cfg.prop,
                    p.display(),
                    sec.name,
                    f.sig,
                    one_line(&f.detail, 400)
                );
                self.violations.push(Violation {
                    section: sec.name.to_string(),
                    failure: f,
                    replay: p.clone(),
                });
            }
        }
        if n > 0 {
            *self
                .extra
                .entry("regression_cases_replayed".into())
                .or_insert(json!(0)) = json!(self.extra.get("regression_cases_replayed").and_then(|v| v.as_u64()).unwrap_or(0) + n);
        }
    }

    /// Record a section that was not driven by `run` (exhaustive sweeps, thread stress, fuzzers).
    pub fn add_manual(&mut self, stats: SectionStats) {
        eprintln!(
            "[{} {}] {} evals, {} distinct non-trivial, {:.1}s (manual section)",
            self.cfg.prop,
            stats.name,
            stats.evaluations,
            stats.distinct(),
            stats.wall_s
        );
        self.sections.push(stats);
    }

    /// Fold the evidence JSON written by a child process (VERIF_CHILD_OUT) into this report.
    pub fn add_child_evidence(&mut self, prefix: &str, ev: &Value) {
        let Some(secs) = ev["coverage"]["sections"].as_object() else { return };
        for (name, s) in secs {
            let mut st = SectionStats {
                name: format!("{prefix}{name}"),
                evaluations: s["evaluations"].as_u64().unwrap_or(0),
                distinct_extra: s["distinct_nontrivial"].as_u64().unwrap_or(0),
                excluded_known: s["excluded_known"].as_u64().unwrap_or(0),
                wall_s: s["wall_s"].as_f64().unwrap_or(0.0),
                stopped_by_budget: s["stopped_by_budget"].as_bool().unwrap_or(false),
                ..Default::default()
            };
            if let Some(classes) = ev["coverage"]["classes"].as_object() {
                for (k, v) in classes {
                    if let Some(rest) = k.strip_prefix(&format!("{name}/")) {
                        st.classes.insert(rest.to_string(), v.as_u64().unwrap_or(0));
                    }
                }
            }
            if let Some(samples) = ev["coverage"]["samples"].as_array() {
                for smp in samples.iter().filter(|x| x["section"].as_str() == Some(name)).take(2) {
                    st.samples.push(smp["case"].clone());
                }
            }
            self.sections.push(st);
        }
        if let Some(k) = ev["coverage"]["known_findings_reproduced"].as_array() {
            let mut seen = self.known_seen.lock().unwrap();
            for s in k.iter().filter_map(|x| x.as_str()) {
                seen.insert(s.to_string());
            }
        }
    }

    /// Report a violation found by a manual section. `case` is written as the replay file.
    pub fn manual_violation(&mut self, section: &str, f: Failure, case: &Value) -> bool {
        if self.is_known(section, &f.sig) {
            self.known_seen.lock().unwrap().insert(f.sig.clone());
            return false;
        }
        let path = self.write_replay(section, case, &[f.clone()]);
        println!(
            "VIOLATION property={} replay={} section={} sig={} :: {}",
            self.cfg.prop,
            path.display(),
            section,
            f.sig,
            one_line(&f.detail, 400)
        );
        self.violations.push(Violation {
            section: section.to_string(),
            failure: f,
            replay: path,
        });
        true
    }

    /// Write evidence, print KNOWN-FINDING lines, exit with the contract's code.
    pub fn finish(self) -> ! {
        let seen = self.known_seen.lock().unwrap().clone();
        for k in &self.known {
            if seen.contains(&k.signature) {
                println!(
                    "KNOWN-FINDING: property={} section={} sig={} {}",
                    k.property, k.section, k.signature, k.what
                );
            }
        }
        let mut evaluations = 0u64;
        let mut distinct = 0u64;
        let mut excluded = 0u64;
        let mut samples: Vec<Value> = vec![];
        let mut classes: BTreeMap<String, u64> = BTreeMap::new();
        let mut secs = serde_json::Map::new();
        let mut rules = vec![];
        let mut all_exhaustive = !self.sections.is_empty();
        for s in &self.sections {
            evaluations += s.evaluations;
            distinct += s.distinct();
            excluded += s.excluded_known;
            all_exhaustive &= s.exhaustive;
            for smp in s.samples.iter().take(2) {
                samples.push(json!({"section": s.name, "case": smp}));
            }
            for (k, v) in &s.classes {
                *classes.entry(format!("{}/{}", s.name, k)).or_default() += v;
            }
            if !s.rule.is_empty() {
                rules.push(format!("[{}] {}", s.name, s.rule));
            }
            let mut o = json!({
                "evaluations": s.evaluations,
                "distinct_nontrivial": s.distinct(),
                "excluded_known": s.excluded_known,
                "wall_s": (s.wall_s * 100.0).round() / 100.0,
                "stopped_by_budget": s.stopped_by_budget,
                "exhaustive": s.exhaustive,
            });
            for (k, v) in &s.extra {
                o[k] = v.clone();
            }
            secs.insert(s.name.clone(), o);
        }
        let wall = self.start.elapsed().as_secs_f64();
        let mut coverage = json!({
            "evaluations": evaluations,
            "distinct_nontrivial": distinct,
            "rule": format!("{} {}", self.rule, rules.join(" ")),
            "samples": samples,
            "classes": classes,
            "sections": Value::Object(secs),
            "excluded_known": excluded,
            "exhaustive": all_exhaustive,
            "known_findings_reproduced": seen.iter().cloned().collect::<Vec<_>>(),
            "inconclusive": self.inconclusive,
            "workers": self.cfg.workers,
        });
        for (k, v) in &self.extra {
            coverage[k] = v.clone();
        }
        let ev = json!({
            "property_id": self.cfg.prop,
            "tier": self.cfg.tier.as_str(),
            "seed": self.cfg.seed as i64,
            "level": self.level,
            "coverage": coverage,
            "assumptions": self.assumptions,
            "wall_s": (wall * 100.0).round() / 100.0,
            "violations": self.violations.len(),
        });
        if let Ok(child_out) = std::env::var("VERIF_CHILD_OUT") {
            // a helper process of a check (e.g. the small-chunk build): the parent folds this in
            let _ = std::fs::write(&child_out, serde_json::to_string(&ev).unwrap());
        } else if self.cfg.replay.is_none() && self.cfg.only.is_none() {
            let dir = self.cfg.root.join("evidence");
            let _ = std::fs::create_dir_all(&dir);
            let path = dir.join(format!("{}.json", self.cfg.prop));
            if let Err(e) = std::fs::write(&path, serde_json::to_string_pretty(&ev).unwrap()) {
                eprintln!("cannot write evidence {}: {e}", path.display());
                std::process::exit(2);
            }
        }
        eprintln!(
            "[{}] tier={} seed={} evaluations={} distinct_nontrivial={} violations={} wall={:.1}s",
            self.cfg.prop,
            self.cfg.tier.as_str(),
            self.cfg.seed,
            evaluations,
            distinct,
            self.violations.len(),
            wall
        );
        if !self.violations.is_empty() {
            std::process::exit(1);
        }
        // a section in which many cases could not be judged (label `inconclusive*`: wall-clock caps
        // of the sims) did not really explore what it reports: say so instead of "held"
        for s in &self.sections {
            let inconclusive: u64 = s.classes.iter().filter(|(k, _)| k.starts_with("inconclusive")).map(|(_, v)| *v).sum();
            if s.evaluations >= 20 && inconclusive * 5 > s.evaluations {
                eprintln!(
                    "[{}] section {}: {} of {} cases were inconclusive (timeouts or harness preconditions, see the inconclusive* classes in the evidence): the run is inconclusive",
                    self.cfg.prop, s.name, inconclusive, s.evaluations
                );
                std::process::exit(2);
            }
        }
        std::process::exit(0);
    }
}


/// Run another harness binary for the same property as a child process (its own sections need
/// another crate's simulator) and fold its evidence into this report. The child writes its evidence
/// to VERIF_CHILD_OUT, prints its own VIOLATION lines and writes its own replay files.
pub fn run_child(rep: &mut Report, exe: &std::path::Path, what: &str) {
    let cfg = rep.cfg.clone();
    if cfg.replay.is_some() || cfg.only.is_some() || std::env::var_os("VERIF_CHILD_OUT").is_some() {
        return;
    }
    if !exe.exists() {
        rep.inconclusive.push(format!("{what}: {} missing", exe.display()));
        eprintln!("[{}] {what}: {} missing", cfg.prop, exe.display());
        return;
    }
    let out = std::env::temp_dir().join(format!("vh-child-{}-{}.json", cfg.prop, std::process::id()));
    let status = std::process::Command::new(exe)
        .args(["--prop", &cfg.prop, "--tier", cfg.tier.as_str(), "--seed", &cfg.seed.to_string(), "--scale", &cfg.scale.to_string(), "--workers", &cfg.workers.to_string()])
        .env("VERIF_CHILD_OUT", &out)
        .env("VERIF_ROOT", &cfg.root)
        .status();
    match status {
        Ok(st) => {
            if let Ok(txt) = std::fs::read_to_string(&out) {
                if let Ok(ev) = serde_json::from_str::<Value>(&txt) {
                    rep.add_child_evidence("", &ev);
                }
            }
            let _ = std::fs::remove_file(&out);
            match st.code() {
                Some(0) => {}
                Some(1) => rep.violations.push(Violation {
                    section: what.to_string(),
                    failure: Failure { sig: "see_child_output".into(), detail: format!("violation reported by the {what}") },
                    replay: cfg.root.join("replays"),
                }),
                other => rep.inconclusive.push(format!("{what} exited with {other:?}")),
            }
        }
        Err(e) => rep.inconclusive.push(format!("cannot run {what}: {e}")),
    }
}

/// Thorough tier: generators may draw longer histories / larger structures (read by strategy fns).
pub static DEEP: AtomicBool = AtomicBool::new(false);

/// `shallow` in the quick tier; in the thorough tier half of the cases use `deep` instead.
pub fn depth(shallow: usize, deep: usize) -> usize {
    if DEEP.load(Ordering::Relaxed) {
        deep
    } else {
        shallow
    }
}

pub fn one_line(s: &str, max: usize) -> String {
    let s: String = s
        .chars()
        .map(|c| if c == '\n' || c == '\r' { ' ' } else { c })
        .collect();
    if s.len() > max {
        let mut cut = max;
        while !s.is_char_boundary(cut) {
            cut -= 1;
        }
        format!("{}…", &s[..cut])
    } else {
        s
    }
}

/// Monotone index mapping (shrinks towards 0 without stalling): `i` is a u16 choice.
pub fn pick_idx(i: u16, len: usize) -> usize {
    if len == 0 {
        0
    } else {
        ((i as usize) * len) >> 16
    }
}

/// Counter usable from manual sections.
pub static MANUAL_COUNTER: AtomicU64 = AtomicU64::new(0);

/// Helper to declare a section with less noise.
#[macro_export]
macro_rules! section {
    ($rep:expr, $name:expr, $cases:expr, $workers:expr, $rule:expr, $strat:expr, $check:expr) => {{
        let strat = $strat;
        let check = $check;
        $rep.run($crate::Section {
            name: $name,
            cases: $cases,
            strategy: &strat,
            check: &check,
            rule: $rule,
            max_workers: $workers,
        })
    }};
}

/// Thorough tier only: a coverage-guided libFuzzer campaign over the section's strategy and check
/// (see `secfuzz`). `$target`/`$feature` name the fuzz binary of /verif/fuzz and its cargo feature.
#[macro_export]
macro_rules! fuzz_section {
    ($rep:expr, $name:expr, $strat:expr, $check:expr, $target:expr, $feature:expr, $runs:expr, $cap:expr, $procs:expr) => {{
        let strat = $strat;
        let check = $check;
        $rep.fuzz_campaign(
            $crate::Section { name: $name, cases: (0, 0), strategy: &strat, check: &check, rule: "", max_workers: 16 },
            $crate::secfuzz::Campaign { target: $target, feature: $feature, runs: $runs, cap_s: $cap, max_len: 16384, procs: $procs },
        )
    }};
}
