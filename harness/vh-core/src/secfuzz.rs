//! Coverage-guided search over a *generated section*: libFuzzer drives the very same proptest
//! strategy and the very same check function as the random sections do.
//!
//! The fuzzer's input bytes are the random stream of the strategy (`RngAlgorithm::PassThrough`): every
//! byte string decodes to a case the generator could have produced (ranges, weights and structure are
//! the strategy's; when the bytes run out the stream continues with zeros, i.e. minimal choices). The
//! fuzz target is the real code built with coverage instrumentation, so libFuzzer's corpus grows
//! towards cases that reach new branches of the code under test — deeper protocol states than uniform
//! sampling reaches in the same number of cases. A failing input is decoded in process, shrunk with the
//! strategy's own value tree and written as an ordinary replay file of the section.
//!
//! * `Table` / `target_one`: used by the fuzz target binaries (`/verif/fuzz/fuzz_targets/sec_*.rs`)
//! * `Report::fuzz_campaign`: used by the thorough tier of a check

use crate::*;
use std::process::Command;

/// One fuzzable section: decodes the bytes with the section's strategy and runs its check.
pub struct Entry {
    pub prop: &'static str,
    pub section: &'static str,
    run: Box<dyn Fn(&[u8]) -> Vec<Failure>>,
}

pub type Table = Vec<Entry>;

fn config() -> Config {
    Config { failure_persistence: None, max_shrink_iters: 4096, ..Config::default() }
}

/// the case the strategy produces when `data` is its random stream (None: the strategy rejected)
pub fn tree_from_bytes<T: Debug>(strat: &BoxedStrategy<T>, data: &[u8]) -> Option<Box<dyn ValueTree<Value = T>>> {
    let rng = TestRng::from_seed(RngAlgorithm::PassThrough, data);
    let mut runner = TestRunner::new_with_rng(config(), rng);
    strat.new_tree(&mut runner).ok()
}

pub fn entry<T, S, C>(prop: &'static str, section: &'static str, strategy: S, check: C) -> Entry
where
    T: Debug + 'static,
    S: Fn() -> BoxedStrategy<T> + 'static,
    C: Fn(&T, &mut Ctx) + 'static,
{
    let strat: std::cell::OnceCell<BoxedStrategy<T>> = std::cell::OnceCell::new();
    Entry {
        prop,
        section,
        run: Box::new(move |data| {
            let s = strat.get_or_init(&strategy);
            let Some(tree) = tree_from_bytes(s, data) else { return vec![] };
            let case = tree.current();
            let mut ctx = Ctx::default();
            if let Err(msg) = catch_panic(|| check(&case, &mut ctx)) {
                ctx.fail(format!("panic:{}", panic_file(&msg)), msg);
            }
            ctx.failures
        }),
    }
}

thread_local! {
    static CHOSEN: RefCell<Option<(usize, Vec<String>)>> = const { RefCell::new(None) };
}

/// Body of a fuzz target: runs the section named by `VERIF_FUZZ_SECTION` (`<prop>:<section>`) of
/// `table` on `data`; a failure whose signature is not a known finding aborts the process (= crash
/// artifact for libFuzzer).
pub fn target_one(table: &Table, data: &[u8]) {
    let (idx, known) = CHOSEN.with(|c| {
        c.borrow_mut()
            .get_or_insert_with(|| {
                install_panic_hook();
                DEEP.store(std::env::var("VERIF_FUZZ_DEEP").map(|v| v != "0").unwrap_or(true), Ordering::Relaxed);
                let want = std::env::var("VERIF_FUZZ_SECTION").unwrap_or_default();
                let idx = table
                    .iter()
                    .position(|e| format!("{}:{}", e.prop, e.section) == want)
                    .unwrap_or_else(|| {
                        eprintln!("VERIF_FUZZ_SECTION={want:?} names no section of this target; available: {:?}", table.iter().map(|e| format!("{}:{}", e.prop, e.section)).collect::<Vec<_>>());
                        std::process::exit(3);
                    });
                let root = PathBuf::from(std::env::var("VERIF_ROOT").unwrap_or_else(|_| "/verif".into()));
                let known = load_known(&root, table[idx].prop)
                    .into_iter()
                    .filter(|k| k.section == table[idx].section || k.section == "*")
                    .map(|k| k.signature)
                    .collect();
                (idx, known)
            })
            .clone()
    });
    for f in (table[idx].run)(data) {
        if !known.contains(&f.sig) {
            eprintln!("{} violation in section {}: {} :: {}", table[idx].prop, table[idx].section, f.sig, one_line(&f.detail, 400));
            std::process::abort();
        }
    }
}

fn final_stat(out: &str, key: &str) -> Option<u64> {
    out.lines()
        .rev()
        .find_map(|l| l.trim().strip_prefix(key).and_then(|r| r.trim().trim_start_matches(':').trim().parse().ok()))
}

/// last `cov: N ft: M corp: K` progress line of a libFuzzer log
fn last_cov(out: &str) -> (Option<u64>, Option<u64>, Option<u64>) {
    for l in out.lines().rev() {
        if let (Some(c), Some(f)) = (l.find(" cov: "), l.find(" ft: ")) {
            let num = |s: &str| s.trim().split(|ch: char| !ch.is_ascii_digit()).next().and_then(|x| x.parse().ok());
            let corp = l.find(" corp: ").and_then(|i| num(&l[i + 7..]));
            return (num(&l[c + 6..]), num(&l[f + 5..]), corp);
        }
    }
    (None, None, None)
}

pub struct Campaign<'a> {
    /// binary name in /verif/fuzz (e.g. `sec_store`) and the cargo feature that pulls its harness crate in
    pub target: &'a str,
    pub feature: &'a str,
    /// libFuzzer runs per process at scale 1.0, wall-clock cap per process in seconds (expiry = stop)
    pub runs: u64,
    pub cap_s: u64,
    pub max_len: usize,
    /// parallel fuzzer processes (independent corpora, seeds VERIF_SEED*k)
    pub procs: usize,
}

impl Report {
    /// Thorough tier: a libFuzzer campaign over section `sec` (same strategy, same check). Anything
    /// that prevents the campaign (no nightly, build error, time budget) is recorded as inconclusive,
    /// never as a violation; a crash artifact is decoded, re-judged in process, shrunk and reported
    /// like any generated failure (its replay file is an ordinary case of the section).
    pub fn fuzz_campaign<T>(&mut self, sec: Section<T>, c: Campaign)
    where
        T: Debug + Clone + Serialize + DeserializeOwned + Send + 'static,
    {
        let section = format!("fuzz:{}", sec.name);
        if self.cfg.replay.is_some() || self.tier() != Tier::Thorough || !self.wants(&section) {
            return;
        }
        if std::env::var_os("VERIF_NO_FUZZ").is_some() {
            self.inconclusive.push(format!("{section}: skipped (VERIF_NO_FUZZ set)"));
            return;
        }
        let fuzz_dir = self.cfg.root.join("fuzz");
        let runs = ((c.runs as f64) * self.cfg.scale).ceil().max(200.0) as u64;
        let cap_s = ((c.cap_s as f64) * self.cfg.scale.clamp(0.2, 4.0)).ceil() as u64;
        if self.budget_left().as_secs() < cap_s + 600 {
            self.inconclusive.push(format!("{section}: skipped, time budget exhausted"));
            return;
        }
        let t0 = Instant::now();
        let build = Command::new("cargo")
            .current_dir(&fuzz_dir)
            .env("CARGO_NET_OFFLINE", "true")
            // coverage feedback only from the code under test and the harness crates (sancov-wrapper.sh),
            // no AddressSanitizer (the oracles are semantic; the code under test is safe Rust), own target dir
            .env("RUSTC_WRAPPER", fuzz_dir.join("sancov-wrapper.sh"))
            .args(["+nightly", "fuzz", "build", "--release", "--sanitizer", "none", "--fuzz-dir", ".", "--target-dir"])
            .arg(fuzz_dir.join("target-sec"))
            .args(["--features", c.feature, c.target])
            .output();
        match build {
            Ok(o) if o.status.success() => {}
            Ok(o) => {
                let err = String::from_utf8_lossy(&o.stderr).into_owned();
                let tail: Vec<&str> = err.lines().filter(|l| l.contains("error")).take(6).collect();
                self.inconclusive.push(format!("{section}: cargo fuzz build failed (not a violation): {}", tail.join(" | ")));
                eprintln!("[{} {}] cargo fuzz build failed; campaign skipped", self.cfg.prop, section);
                return;
            }
            Err(e) => {
                self.inconclusive.push(format!("{section}: cannot start cargo fuzz: {e}"));
                return;
            }
        }
        let bin = std::fs::read_dir(fuzz_dir.join("target-sec"))
            .ok()
            .into_iter()
            .flatten()
            .filter_map(|e| e.ok())
            .map(|e| e.path().join("release").join(c.target))
            .find(|p| p.is_file());
        let Some(bin) = bin else {
            self.inconclusive.push(format!("{section}: built fuzz binary not found under {}/target-sec", fuzz_dir.display()));
            return;
        };
        let build_s = t0.elapsed().as_secs_f64();

        // seed corpus: the random streams of a few hundred generated cases (Recorder RNG). Where the
        // strategy forks its RNG the replayed stream decodes to a different, still well-formed, case.
        let strat = (sec.strategy)();
        let mut seeds: Vec<Vec<u8>> = vec![vec![]];
        for i in 0..192u64 {
            let seed = derive_seed(self.cfg.seed, &self.cfg.prop, &section, i);
            let mut runner = TestRunner::new_with_rng(config(), TestRng::from_seed(RngAlgorithm::Recorder, &seed));
            if strat.new_tree(&mut runner).is_ok() {
                let mut b = runner.bytes_used();
                b.truncate(c.max_len);
                seeds.push(b);
            }
        }
        let procs = c.procs.clamp(1, self.cfg.workers.max(1));
        let work = match tempfile_dir(&self.cfg.prop) {
            Some(w) => w,
            None => {
                self.inconclusive.push(format!("{section}: no scratch directory"));
                return;
            }
        };
        let t1 = Instant::now();
        let prop = self.cfg.prop.clone();
        let root = self.cfg.root.clone();
        let base_seed = self.cfg.seed;
        let outs: Vec<(String, bool, Vec<PathBuf>)> = std::thread::scope(|scope| {
            let hs: Vec<_> = (0..procs)
                .map(|k| {
                    let (work, bin, seeds, prop, root) = (&work, &bin, &seeds, &prop, &root);
                    let sec_name = sec.name;
                    scope.spawn(move || {
                        let dir = work.join(format!("p{k}"));
                        let corpus = dir.join("corpus");
                        let artifacts = dir.join("artifacts");
                        std::fs::create_dir_all(&corpus).ok();
                        std::fs::create_dir_all(&artifacts).ok();
                        for (i, s) in seeds.iter().enumerate() {
                            std::fs::write(corpus.join(format!("seed{i:03}")), s).ok();
                        }
                        let seed = (splitmix64(base_seed ^ (k as u64).wrapping_mul(0x9e37)) % (u32::MAX as u64 - 1)) + 1;
                        let out = Command::new(bin)
                            .current_dir(&dir)
                            .env("VERIF_ROOT", root)
                            .env("VERIF_FUZZ_SECTION", format!("{prop}:{sec_name}"))
                            .env("VERIF_TMP", &dir)
                            .arg(&corpus)
                            .arg(format!("-runs={runs}"))
                            .arg(format!("-seed={seed}"))
                            .arg(format!("-max_total_time={cap_s}"))
                            .arg(format!("-max_len={}", c.max_len))
                            .arg(format!("-artifact_prefix={}/", artifacts.display()))
                            .args(["-len_control=0", "-timeout=120", "-rss_limit_mb=6144", "-print_final_stats=1", "-verbosity=1", "-reduce_inputs=0"])
                            .output();
                        match out {
                            Ok(o) => {
                                let log = format!("{}\n{}", String::from_utf8_lossy(&o.stdout), String::from_utf8_lossy(&o.stderr));
                                let mut crashes: Vec<PathBuf> = std::fs::read_dir(&artifacts)
                                    .map(|rd| rd.filter_map(|e| e.ok().map(|e| e.path())).collect())
                                    .unwrap_or_default();
                                crashes.sort();
                                (log, o.status.success(), crashes)
                            }
                            Err(e) => (format!("cannot start {}: {e}", bin.display()), false, vec![]),
                        }
                    })
                })
                .collect();
            hs.into_iter().map(|h| h.join().unwrap_or_else(|_| ("fuzzer thread panicked".into(), false, vec![]))).collect()
        });

        let mut stats = SectionStats {
            name: section.clone(),
            rule: format!(
                "libFuzzer (coverage-guided) over section `{}`: the input bytes are the strategy's random stream (proptest PassThrough RNG), the check function is the section's; {procs} processes x -runs={runs} (cap {cap_s}s each, expiry = stop), seeds derived from VERIF_SEED, corpus seeded with the recorded streams of {} generated cases, -max_len={} -len_control=0; known signatures are skipped inside the target",
                sec.name,
                seeds.len() - 1,
                c.max_len
            ),
            ..Default::default()
        };
        let (mut cov, mut ft, mut corp, mut new_units) = (0u64, 0u64, 0u64, 0u64);
        let mut any_artifact = false;
        for (k, (log, ok, crashes)) in outs.iter().enumerate() {
            let executed = final_stat(log, "stat::number_of_executed_units").unwrap_or(0);
            stats.evaluations += executed;
            new_units += final_stat(log, "stat::new_units_added").unwrap_or(0);
            let (c1, f1, k1) = last_cov(log);
            cov = cov.max(c1.unwrap_or(0));
            ft = ft.max(f1.unwrap_or(0));
            corp = corp.max(k1.unwrap_or(0));
            if *ok && executed > 0 && executed < runs {
                stats.stopped_by_budget = true;
            }
            if !*ok && crashes.is_empty() {
                let tail: Vec<&str> = log.lines().rev().take(8).collect();
                self.inconclusive.push(format!(
                    "{section}: fuzzer process {k} exited abnormally without an artifact (not a violation): {}",
                    one_line(&tail.into_iter().rev().collect::<Vec<_>>().join(" | "), 500)
                ));
            }
            for cpath in crashes {
                any_artifact = true;
                let input = std::fs::read(cpath).unwrap_or_default();
                let fname = cpath.file_name().and_then(|f| f.to_str()).unwrap_or("").to_string();
                let Some(tree) = tree_from_bytes(&strat, &input) else { continue };
                let case = tree.current();
                let ctx = self.run_case(&sec, &case);
                let unknown = self.unknown_failures(sec.name, &ctx);
                if unknown.is_empty() {
                    // timeout-/oom- artifacts, or a failure that depends on process state: keep the input, no verdict
                    self.inconclusive.push(format!("{section}: artifact {fname} ({} bytes) does not reproduce in process", input.len()));
                    let dir = self.cfg.root.join("replays");
                    let _ = std::fs::create_dir_all(&dir);
                    let _ = std::fs::copy(cpath, dir.join(format!("{}-fuzz-{}-{fname}", self.cfg.prop, sec.name)));
                    continue;
                }
                if self.violations.iter().any(|v| v.section == sec.name && unknown.iter().any(|u| u.sig == v.failure.sig)) {
                    continue; // same signature already reported by this run
                }
                let (min_case, fails) = self.shrink(&sec, tree, case, unknown);
                let f = fails[0].clone();
                let path = self.write_replay(sec.name, &min_case, &fails);
                println!(
                    "VIOLATION property={} replay={} section={} sig={} :: (found by the libFuzzer campaign) {}",
                    self.cfg.prop,
                    path.display(),
                    sec.name,
                    f.sig,
                    one_line(&f.detail, 400)
                );
                self.violations.push(Violation { section: sec.name.to_string(), failure: f, replay: path });
            }
        }
        if stats.stopped_by_budget {
            self.inconclusive.push(format!("{section}: a fuzzer process reached its {cap_s}s cap before {runs} runs (not a failure)"));
            stats.stopped_by_budget = false; // the cap is part of the campaign's definition
        }
        stats.wall_s = t1.elapsed().as_secs_f64();
        stats.extra.insert("edge_coverage".into(), json!(cov));
        stats.extra.insert("features".into(), json!(ft));
        stats.extra.insert("corpus_units".into(), json!(corp));
        stats.extra.insert("new_units_added".into(), json!(new_units));
        stats.extra.insert("build_s".into(), json!((build_s * 10.0).round() / 10.0));
        stats.extra.insert("processes".into(), json!(procs));
        if !any_artifact {
            let _ = std::fs::remove_dir_all(&work);
        } else {
            eprintln!("[{} {}] artifacts kept under {}", self.cfg.prop, section, work.display());
        }
        self.add_manual(stats);
    }
}

fn tempfile_dir(prop: &str) -> Option<PathBuf> {
    let base = std::env::var("VERIF_TMP").map(PathBuf::from).unwrap_or_else(|_| {
        let shm = Path::new("/dev/shm");
        if shm.is_dir() { shm.to_path_buf() } else { std::env::temp_dir() }
    });
    let d = base.join(format!("vh-fuzz-{prop}-{}-{}", std::process::id(), splitmix64(Instant::now().elapsed().as_nanos() as u64) % 100_000));
    std::fs::create_dir_all(&d).ok()?;
    Some(d)
}
