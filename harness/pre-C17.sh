#!/bin/bash
# C17 has a record-store section that lives in vh-store (it needs the swarm-driver
# simulator); build that binary too.
cd "$(dirname "$0")" || exit 2
LOG="$(mktemp)"
if ! CARGO_NET_OFFLINE=true cargo build --release --offline -p vh-store >"$LOG" 2>&1; then
  echo "pre-check: vh-store build failed" >&2; tail -30 "$LOG" >&2; rm -f "$LOG"; exit 2
fi
rm -f "$LOG"
