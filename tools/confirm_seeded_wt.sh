#!/bin/bash
# tools/confirm_seeded_wt.sh <out-dir> <ID> <worktree> "<demo command>"  [extra check ids...]
# Like confirm_seeded.sh, but the checks run against the scratch worktree carrying the change
# (tools/mutant_run.sh) instead of /repo, so that /repo stays free for other runs.
set -u
OUT="$1"; ID="$2"; WT="$3"; DEMO="$4"; shift 4
export CARGO_NET_OFFLINE=true
cd "$WT" || exit 2
git checkout -q -- . && git clean -fdq -e target -e .verif-harness
git apply "$OUT/$ID/demo.diff" || { echo "demo.diff does not apply"; exit 2; }
echo "== demo on unchanged source"; (eval "$DEMO") > /tmp/confirm-$ID-a.log 2>&1; A=$?; tail -3 /tmp/confirm-$ID-a.log
git apply "$OUT/$ID/patch.diff" || { echo "patch.diff does not apply on top of demo"; exit 2; }
echo "== demo with the change"; (eval "$DEMO") > /tmp/confirm-$ID-b.log 2>&1; B=$?; tail -3 /tmp/confirm-$ID-b.log
git checkout -q -- . && git clean -fdq -e target -e .verif-harness
echo "demo exit without change: $A   with change: $B"
git apply "$OUT/$ID/patch.diff" || { echo "patch.diff does not apply"; exit 2; }
if [ ! -d "$WT/.verif-harness/harness/target" ]; then mkdir -p "$WT/.verif-harness/harness"; cp -a /verif/harness/target "$WT/.verif-harness/harness/target"; fi
for C in "$ID" "$@"; do
  echo "== check $C quick against the worktree with the change"
  /verif/tools/mutant_run.sh "$WT" "$C" quick > /tmp/confirm-$ID-check-$C.log 2>&1; echo "exit=$?"
  grep -E "^VIOLATION" /tmp/confirm-$ID-check-$C.log | cut -c1-300 | head -4
  grep -E "^\[$C\] tier" /tmp/confirm-$ID-check-$C.log
done
git checkout -q -- . && git clean -fdq -e target -e .verif-harness
git status --short | head -3
