#!/usr/bin/env python3
"""gen_seed_prompts.py <round-dir> <worktree-prefix>: writes one prompt per group of two properties for the
independent sub-agents that write seeded changes. A prompt contains ONLY the task description, the property
text (statement + quantifier from properties.jsonl) and one-line names of ideas already used — nothing else
from /verif."""
import json, sys, os, glob
rd, wtp = sys.argv[1], sys.argv[2]
props = {json.loads(l)['id']: json.loads(l) for l in open('/verif/properties.jsonl')}
used = {}
for d in sorted(glob.glob('/verif/seeded/*/meta.json')):
    m = json.load(open(d))
    used.setdefault(m['property'], []).append(f"{m['name'].replace('-', ' ')} ({m['needs_to_manifest'][:110]})")
GROUPS = [("A", "C01", "C14"), ("B", "C02", "C13"), ("C", "C03", "C19"), ("D", "C04", "C20"), ("E", "C05", "C16"),
          ("F", "C06", "C18"), ("G", "C07", "C17"), ("H", "C08", "C15"), ("I", "C09", "C12"), ("J", "C10", "C11")]
ROUND_NOTE = sys.argv[3] if len(sys.argv) > 3 else ""
HEAD = open('/verif/tools/SEED_PROMPT_HEAD.txt').read()
for g, a, b in GROUPS:
    wt, out = f"{wtp}-{g}", f"{rd}/out-{g}"
    os.makedirs(out, exist_ok=True)
    t = HEAD.replace("{WT}", wt).replace("{OUT}", out)
    t += "\nPROPERTIES\n"
    for pid in (a, b):
        p = props[pid]
        t += f"\n{pid} — {p['title']}\nStatement: {p['statement']}\nQuantified over: {p['quantifier']['text']}\n"
        t += "Already explored by earlier contributors for this property (do NOT reuse these ideas; pick a different clause of the statement, a different code path, a different record kind or a different triggering condition): " + "; ".join(used.get(pid, [])) + ".\n"
    if ROUND_NOTE:
        t += "\n" + open(ROUND_NOTE).read()
        open(f"{rd}/prompt-{g}.txt", "w").write(t)
        print(g, a, b, len(t))
        continue
    t += "\nThis is the fourth round: the obvious ideas and most input-shaped ideas are taken. Prefer changes that need a particular ORDER OF EVENTS to manifest — an interleaving of two operations, a completion or reply arriving late or twice, a crash/restart or an injected failure at a particular point, state left behind by an earlier operation — or two cooperating sites that each look fine alone. Boundary values taken from constants in the code and configuration-dependent behaviour are welcome too. Read the statement clause by clause and look for a clause or call site none of the explored ideas touches.\n"
    open(f"{rd}/prompt-{g}.txt", "w").write(t)
    print(g, a, b, len(t))
