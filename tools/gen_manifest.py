#!/usr/bin/env python3
"""Regenerates /verif/MANIFEST.json from the table below (single source of truth)."""
import json, os, sys
ROOT = os.path.dirname(os.path.dirname(os.path.abspath(__file__)))

# id -> (engine, category, technique, level text, level note, design ref)
CHECKS = {
 "C17": ("vh-parsers", "exploration",
         "proptest generator family (empty, 1-3 chars, exact length +-2 around each parser's fixed offsets, very long, odd / non-hex, non-UTF-8, boundary numbers, structured edits of really-written files) against every untrusted-input parser under catch_unwind with overflow checks on, round trips where a formatter exists, small exhaustive enumerations (all u16 ports, all text lengths <= 400, all <= 2-byte record values), record files with arbitrary content planted in a real node store and loaded by a restart (child process in vh-store), and (thorough) coverage-guided libFuzzer targets per parser family",
         "No panic / overflow and parse(format(v)) == v held on ~0.54 M (quick) to several million (thorough) generated and enumerated inputs per run for hex addresses, data-map chunks, wallet key files, port ranges, amounts, multiaddresses, bootstrap cache files, node registry files and record bytes; 13 seeded parser weakenings are each caught in the quick tier. Exploration: inputs are sampled, the named finite sub-spaces are enumerated completely.",
         "Accept/reject decisions are not judged except canonical port spellings; libp2p / serde / rmp trusted for their decisions (their panics would still be reported); the ant-cli wallet module is compiled into the harness by #[path] since it lives in a binary crate.",
         "DESIGN.md §3 C17"),
 "C19": ("vh-mgmt", "fault_enumeration",
         "stateful proptest of the real add_node / ServiceManager (start, stop, remove, upgrade) over an in-memory FakeOS implementing ServiceControl and RpcActions with generated operation sequences and injected call failures (incl. 'start succeeded but no process'), plus exhaustive enumeration of every single-fault placement (quick) and every fault pair (thorough) over a fixed 200-sequence catalogue; registry-vs-FakeOS-truth oracle after every operation",
         "Fault enumeration: for generated sequences with 0-2 injected failures and, exhaustively, for every single and every pair of fault placements over the catalogue, the recorded status matches the process table (Running => live process with that pid, Ok stop/remove => no process and no pid, Removed is final, a failed op never newly records Running), names / data dirs / ports never collide, and save->load is the identity. Known findings excluded by signature.",
         "FakeOS is the trusted base (the real OS service manager and RPC client are below the seam); the cmd/node.rs glue is replicated by hand in both the CLI and the daemon style; crash staleness is exempt until the next effective Ok operation on that service.",
         "DESIGN.md §3 C19"),
 "C20": ("vh-mgmt", "exploration",
         "proptest differential: generated combinations of every installable option -> real add_node over FakeOS captures the install ServiceInstallCtx, real ServiceManager::upgrade captures the re-install ctx; both argument lists are fed to the real antnode binary (built with the option-dump hook) and the parsed-option dumps are compared with each other and with the intended configuration, and a second hook reports the protocol identifiers the node is about to start with; optionally another add (without --env) runs before the upgrade; thorough adds all 2^14 presence patterns of the optional options",
         "Generated option combinations (custom EVM, ports, IPs, peers arguments, log settings, owner, home-network/UPnP, user mode, environment, paths with spaces): install and upgrade definitions agree in program, user, label, working dir and (flag,value) multiset, the real antnode accepts both and interprets them identically and as intended. Held-on-N-cases assurance; five seeded flag regressions are caught in the quick tier.",
         "Nothing below the ServiceControl seam (unit-file quoting) is tested; generators respect antctl's own clap rules; requested port 65535 is left to C17; the hooked antnode is built into harness/target-antnode by the check itself.",
         "DESIGN.md §3 C20"),
 "C14": ("vh-client", "exploration",
         "proptest over lengths around every size-class boundary x contents x fetch completion orders; real autonomi self-encryption + Client::data_get / data_get_public over a hand-stepped client driver answering from an in-memory chunk map; same binary also built with MAX_CHUNK_SIZE=1024 (child process) to reach 1-3 additional data-map levels; round-trip / size / SHA3 address / determinism oracle; a quarter of the cases deny 1-2 chunk reads (NotFound / timeout): the read must fail or return the original, never other bytes",
         "Generated round trips through the real client fetch path in two builds: returned bytes equal the input for every boundary length and multi-level data map, every chunk is addressed by the independent SHA3-256 of its content and bounded by MAX_CHUNK_SIZE (known dependency finding excluded by signature), encryption is deterministic, inputs < 3 bytes are rejected. Held-on-N-cases assurance.",
         "The network is an in-memory chunk map answering at the kad-event seam; CHUNK_DOWNLOAD_BATCH_SIZE is process-global (recorded in the evidence); chunk address order of the returned vector is not asserted.",
         "DESIGN.md §3 C14"),
 "C15": ("vh-client", "exploration",
         "proptest over adversarial reply sets: substituted / wrong-kind / garbage / truncated / other-key chunk replies for chunk_get and data_get_public, and 5 holders x <=4 scratchpad versions (owner-signed, unsigned, forged, inflated counter, foreign-owned but encrypted to the requester) with generated arrival order and terminator for fetch_and_decrypt_vault, injected at the kad-event seam of the real client driver; hash-to-address and authentic-highest-counter oracle; section wrappers (data_get with a caller-held data map, archive_get_public, archive_get against complete decoy objects); get_user_data_from_vault as a second vault entrance; chunk records that spell out the requested address next to other bytes",
         "Generated adversarial holders against the real client read paths: any returned chunk hashes to the requested address, any returned public data is the data the requested data map describes, any returned vault content comes from a delivered version owned and validly signed by the requested key with the highest such counter, and no authentic version means an error. Held-on-N-cases assurance.",
         "Authenticity recomputed in the harness (owner key + BLS over counter||SHA3(data)); reads that end in an error are always acceptable; 'received' = delivered before the query completed.",
         "DESIGN.md §3 C15"),
 "C12": ("vh-protocol", "exploration",
         "proptest round-trip of every record kind and every request/response variant through the repository's msgpack and CBOR codecs, byte-exact differential against 72 frozen goldens in both directions, exhaustive single mutations of every golden, generated structural byte mutations (incl. wider MessagePack forms of the tag), encodes that follow a failed encode on the same thread, and (thorough) libFuzzer targets carrying the same oracle in-target; section hostile_quote_time (paid records / proofs / quotes re-dated on the wire to times the clock type cannot hold, through a serde mirror of the quote); eleven crafted address-carrying chunk forms incl. hex-string spellings",
         "Round-trip, fixed-size/fixed-number tag, golden, forged-chunk-address, no-panic and decode-reencode laws held on ~2.1 M (quick) to 60 M+ (thorough) generated inputs plus exhaustive sub-enumerations (all 256 tags, every truncation offset / bit flip / tag rewrite of each golden); changes to a tag number, field order, variant name, skipped field, serialised chunk address or header bounds check are each detected in the quick tier.",
         "Goldens are trusted as captured from the pinned tree; messages use serde via cbor4ii as libp2p's request_response::cbor codec does, codec framing is below the seam; a non-canonical 3-byte header form accepted by from_record is an explicit either-zone.",
         "DESIGN.md §3 C12"),
 "C13": ("vh-protocol", "exploration",
         "proptest over honestly signed quotes with tracked single- and multi-field mutations judged by a symbolic signer/fields oracle, proof-of-payment truth tables over proofs of 0-5 quotes, wall-clock expiry with a guard band, historical-consistency pairs, and arrival orders of quotes delivered to the real swarm driver's per-peer quote history (child process in vh-store); crowds of up to 44 other peers' quotes between two quotes of one peer in the driver-side section",
         "The verification truth table (quote verifies iff carried key is the claimed node's and the signature covers exactly the current fields; proof verifies iff verifier is payee and all quotes verify; expired iff older than the window or future-dated; regressing later quote flagged) held on 0.9 M (quick) to 17 M (thorough) cases covering every mutation and composition class; eight seeded weakenings are detected in the quick tier.",
         "ed25519 unforgeability assumed; +-5 s around both expiry boundaries, sub-second timestamp changes and key-encoding aliases are not asserted; the converse (honest quote verifies) only for shapes a real client produces.",
         "DESIGN.md §3 C13"),
 "C07": ("vh-node", "exploration",
         "stateful proptest histories of deliveries (paid upload / unpaid update / replicated copy) of scratchpads, transactions and registers for one owner with generated counters, signers, validity and keys against the real node; neighbouring deliveries optionally run concurrently under a generated command schedule; sequential model from the statement, overlapping pairs judged against both serial orders; deliveries that arrive before the previous write has been acknowledged; deliveries of another kind under the same record key; section large_register: held and delivered versions of 500-700 entries that mostly overlap (sizes adding up beyond the entry limit), judged against the union",
         "Model-based checking after every delivery: stored scratchpad is owner-signed (independent BLS check) and its counter never decreases and equals the highest eligible one; transaction set / register operations equal the union of eligible valid deliveries; nothing invalid or foreign is stored; overlapping validations must be serialisable. Held-on-N-histories assurance.",
         "Harness-owned interleaving at command granularity on one thread; payments valid by construction; a register delivery with a non-writer op is rejected as a whole.",
         "DESIGN.md §3 C07"),
 "C09": ("vh-node", "exploration",
         "proptest cases over a 2-4 node ClusterSim of real nodes: generated initial store contents (missing / diverging versions), rounds of interval replication with every message delivered in a generated order through the harness transport; convergence (judged at the fixpoint of the rounds) + advertisement-completeness + non-neighbour oracle (strangers, known-but-far peers, former replication targets); forced fetches; advertisers with a responsible range; a full node whose farthest record is the diverged one; section advert_fanout: one node with 6-16 routing-table peers and a range reaching the r-th closest: every in-range peer gets the full list",
         "After generated exchanges: every chunk held anywhere is held byte-identically by all neighbours, every node's list advertised every record it held and went to every neighbour, lists from strangers / self trigger nothing, mutable records converge to union / highest counter (known finding excluded by signature). Held-on-N-cases assurance.",
         "All nodes are mutual closest peers with spare capacity and unrestricted range; 'enough rounds' = the generated 2-6 rounds and then further rounds while any store still changes (fixpoint); libp2p request/response is replaced by the harness transport.",
         "DESIGN.md §3 C09"),
 "C06": ("vh-registers", "exploration",
         "stateful proptest over real SignedRegister/RegisterCrdt replicas: generated permission settings, op pools (authorised, unauthorised, forged incl. replayed signatures, oversized, other-register, chained, dangling, hash-twin, re-signed copies) and delivery/merge schedules with duplication and partitions, incl. a near-limit mode crossing the 1024-entry bound; oracle = acceptance predicate + set-union model + merge laws + verify()-closure + read-order independence",
         "Generated schedules against a model computed from the op specification: acceptance iff authorised/validly signed/within size for this register, merge commutative/associative/idempotent, equal accepted sets give equal ops and reads in any application order, every reachable state passes verify() on the other replicas. Held-on-N-cases assurance; 8 seeded mutations caught.",
         "BLS (blsttc), crdts and rmp-serde mirror construction trusted; either-zones: forged signature on an open register, a merge refused for exceeding the entry limit.",
         "DESIGN.md §3 C06"),
 "C18": ("vh-bootstrap", "exploration",
         "stateful proptest histories against the real BootstrapCacheStore and one cache file (add/update/clean-up/flush/load/planted real-format files with past timestamps and generated counters), generated + exhaustively truncated corrupt files, and an OS-thread multi-writer stress with a concurrent reader; relational oracles over memory, load result and raw JSON read by the harness' own reader; flushes against an obstructed cache path (must fail without losing what the store knew)",
         "After every generated step: bounds, well-formed dialable addresses with peer id, nothing expired/unreliable after clean-up, merge loses nothing clean-up has no licence to drop, save->load round trip; corrupt/foreign files never crash and are replaced by the next flush; every byte prefix of valid files; concurrent writers never produce a torn read (sampled by the OS scheduler, counted). Held-on-N-cases assurance.",
         "Threads stand in for processes; expiry judged with a 300 s guard band; where a limit is exceeded everything of that peer is an either-zone; harness JSON reader and tmpfs/ext4 rename semantics trusted.",
         "DESIGN.md §3 C18"),
 "C03": ("vh-node", "exploration",
         "proptest cases (record kind x prior content x proof of 3 quotes with six payment conditions toggled by construction) against the real Node validation code over a hand-stepped SwarmDriver with a JSON-RPC payment-contract stub; stored-only-if-all-conditions oracle with whole-store snapshots; plus sequences of 2-4 uploads to one node (re-sent quotes, contract verdicts and reachability per step, pruned records, evicted payees)",
         "Truth-table style generated search: every combination class of the six conditions (all true / exactly one false / several false) for every record kind and prior; stored-new implies all conditions, any false (incl. the contract being unreachable at transport or RPC level) implies rejected and store byte-identical; in sequences every new-data upload is judged on its own proof; unpaid uploads only as updates. The converse (a perfect upload is stored) is a harness precondition, not asserted. Held-on-N-cases assurance.",
         "The Solidity contract is replaced by the stub's verdict table; expiry faults are >= 60 s beyond the boundary; proofs carry 3 quotes (contract arity).",
         "DESIGN.md §3 C03"),
 "C04": ("vh-node", "exploration",
         "proptest cases (kind x path: kad-store put->UnverifiedRecord->validation / unpaid update / replicated copy x matched or adversarially mismatched key x prior content x malformed shapes) against the real node; oracle = independent SHA3-256 address derivation over whole-store snapshots; forged-owner registers in both permission settings (open to anyone / owner only), with and without operations",
         "Generated search over (key, content) pairs on every acceptance path: nothing is ever held under a key its decoded content does not derive; a record under a foreign key is rejected and the store is byte-identical; valid matched records are stored; network records are unreadable before validation; oversized (incl. exactly at the limit) / unparseable ones are refused; a scratchpad or register not signed by the owner its key derives from is refused. Held-on-N-cases assurance.",
         "Address derivation recomputed with tiny-keccak; scratchpad and transaction of one owner legitimately share an address; payment valid throughout (stub).",
         "DESIGN.md §3 C04"),
 "C01": ("vh-store", "exploration",
         "stateful proptest histories (put/overwrite/remove/get/list + generated delivery order/delay of completion notifications + injected write faults with retries + store capacities small enough to prune) interpreted against the real SwarmDriver/NodeRecordStore and a per-key reference model; shrinking to replay file; a quarter of the histories run over a driver whose local command channel has 1-4 slots, so that completion notices meet a full channel",
         "Generated-history search against a reference map: every read must return bytes handed in for that key; after settling, the latest accepted write per key is read back byte-exact, listed with the right type and on disk, removed keys are gone. The harness owns the schedule at the granularity the statement quantifies over (completion order of different-key tasks = order of the buffered completion notifications). Held-on-N-histories assurance.",
         "Single-threaded stepping through the verif-hooks pass-throughs; same-key task order is FIFO (excluded by the statement); keys whose write the harness made fail are only checked for the safety half.",
         "DESIGN.md §3 C01"),
 "C02": ("vh-store", "fault_enumeration",
         "crash-state enumeration: disk effects of generated histories are measured by directory diff, then per-key effect prefixes and torn byte prefixes are materialised and a fresh node (same identity, shipped feature set) is started over them; plus live drop-without-settle crashes and an exhaustive every-byte-prefix sweep per small record; section crash_during_startup: the disk writes of a start-up itself are measured (whole-tree diff + back-dated mtimes) and torn one file at a time before a further restart",
         "Fault enumeration over crash points: for each generated history, arbitrary per-key lag and a torn prefix of the next write; for small records every byte prefix is tried (exhaustive per case). Oracle from the statement: served value is nothing or a previously validated value; completed writes are served and listed; completed removals stay removed.",
         "A torn write is modelled as a byte prefix of the new content; per-key effects apply in issue order; restart goes through the real NetworkBuilder::build_node with ant-node's default features (encrypt-records) via feature unification.",
         "DESIGN.md §3 C02"),
 "C05": ("vh-store", "exploration",
         "proptest cases (quorum cfg x 1-4 concurrent real get_record_from_network callers x up to 3 versions of chunk/transaction/register/scratchpad records x reply sequences with duplicates x terminator) injected as synthetic kad events into a hand-stepped real SwarmDriver; distinct-peer quorum + merge model as oracle; up to 8 content versions per key, with walks over 6-8 peers that each hold another version",
         "Generated search over reply schedules at the kad-event seam against a model counting distinct peers per version: a value is legal only on quorum (+target) or as the deterministic merge; SplitRecord must carry every version; every caller gets exactly one outcome. Held-on-N-cases assurance.",
         "libp2p's query engine is replaced by injected events; a target is only required of quorum results, not of merges; scratchpad counter ties may resolve either way.",
         "DESIGN.md §3 C05"),
 "C08": ("vh-store", "exploration",
         "stateful proptest histories (advertisement lists from 5 holders over 40 keys, completions, early completions, local removals, range/fullness updates, virtual-time ageing) against the real ReplicationFetcher with a monitor holding its own in-flight set (invariants I1-I7) + bounded-progress scenario (I8)",
         "History invariants checked after every call on generated interleavings: nothing held is scheduled, multi-record adverts respect the range, nothing beyond the farthest when full, no duplicate concurrent fetch, batch cap, closest-first, timeouts reported and queues dropped; progress within a stated bound in a fair scenario. Held-on-N-histories assurance.",
         "Virtual time through the ageing hook with a 17-23 s guard band around the 20 s deadline; liveness only as bounded progress.",
         "DESIGN.md §3 C08"),
 "C10": ("vh-store", "exploration",
         "stateful proptest histories (capacity 1-12, puts at known distances incl. unacknowledged bursts, range, clean-up, payments, quotes, restarts) against the real SwarmDriver/NodeRecordStore with a step-by-step accept/evict/refuse model; large-store cases around the 1638-record clean-up threshold; a quarter of the histories run over a 1-4-slot local command channel",
         "Model-based checking of every step: acceptance below capacity, closer-than-farthest rule with exactly the farthest evicted, refusal leaves the held set unchanged, three views of the held set agree, quoted figures equal truth incl. payment count across restarts; clean-up decides each record correctly around the threshold. Held-on-N-histories assurance.",
         "Distances by the harness' own SHA-256/XOR metric; overwrite of a held key at capacity and distance == range are explicit either-zones.",
         "DESIGN.md §3 C10"),
 "C11": ("vh-store", "exploration",
         "proptest address sets of every kind incl. constructed hash-prefix near-collisions vs an independent SHA-256/XOR big-endian reference; differential check of sort_peers_by_*, replicate candidates, closest-K and close-group selection on a real driver with generated routing table; the replication fetcher's closest-first order and full-node bound on the real fetcher; the store's farthest / eviction / in-range decisions over C10's histories",
         "Differential testing against an independently written metric: numeric distance, symmetry, zero-iff-equal, typed vs raw-key forms, and every closeness decision reachable in ant-networking order/filter exactly as the reference integer does. Held-on-N-cases assurance.",
         "Exact distance ties between different peers are not generated; the store/fetcher range filters are cross-checked inside C10/C08 with the same reference.",
         "DESIGN.md §3 C11"),
 "C16": ("vh-protocol", "exploration",
         "proptest generators (boundary-biased amounts, decimal grammar + mutations) vs exact bignum reference; shrinking to replay file",
         "Generated-input search: every printed amount is re-evaluated as an exact decimal, every generated string is classified by an independent grammar+bignum oracle (must-parse-to / must-reject / either), checked_add/sub compared with exact integer arithmetic. Held-on-N-cases assurance, N in the evidence; adequate because the property is a pure function of one or two inputs with known boundary regions which the generators target.",
         "num-bigint arithmetic and the harness' own grammar classification are trusted; strings with a leading '.' or >18 fractional digits whose excess is zeros are an explicit either-zone.",
         "DESIGN.md §3 C16"),
}

NOT_YET = {
}

# thorough tier: coverage-guided libFuzzer campaigns over the same strategies and checks (DESIGN.md §8.8)
SECFUZZ = {
 "C01": "history", "C03": "payment, sequence, issued_quote", "C04": "address", "C05": "quorum", "C06": "schedules",
 "C07": "updates, same_key_other_kind", "C08": "history", "C09": "cluster, forced_fetch", "C10": "capacity",
 "C11": "fetch_order, sort", "C12": "record_roundtrip, message_roundtrip", "C13": "quote_mutations, proof_truth_table, historical_verify",
 "C16": "parse, arith, display", "C18": "history, corrupt", "C19": "sequences",
}
EXTRA_TECH = {
 "C03": "; histories in which the node's own quote in the proof is one the node REALLY issued (Query::GetStoreQuote through its query handler) for this or another address or in an earlier step; unpaid uploads over a held record of another kind that shares the key",
 "C04": "; kad PUTs without a payment envelope under held keys whose records have left the read cache",
 "C07": "; end-of-history re-read after the record has been pushed out of a 2-entry read cache (what the node holds on disk = what it last served)",
 "C09": "; a transient write fault on the receiving neighbour (first write of the fetched copy fails, disk recovers, further rounds)",
 "C16": "; zero-padded whole parts with lengths around 60 / 78 digits and integer-type widths",
 "C19": "; a registry file that the code saved and that no longer loads is a violation (the history reloads it before and after every command)",
 "C01": "; write faults also on held, acknowledged keys with a 'held (listed and readable) or gone' oracle for every settled key",
 "C05": "; callers with a retry strategy on a paused clock (each attempt answered by a generated reply list and terminator, quorum counted leniently over all attempts)",
 "C06": "; every reached state must be mergeable into a replica that holds nothing",
 "C10": "; records of the size limit or more at any fill level (a refusal leaves the held set unchanged); node-side child section (vh-node): the figures in quotes the node really issues through its query handler against the history (capacity, held records in range, payments verified by real paid uploads)",
 "C11": "; whose replication lists a node acts on (sender of a generated closeness rank among 22-70 routing-table peers)",
 "C20": "; service environments carrying the EVM variables the node itself reads",
}
for _pid in list(CHECKS):
    eng, cat, tech, text, note, ref = CHECKS[_pid]
    tech += EXTRA_TECH.get(_pid, "")
    if _pid in SECFUZZ:
        tech += f"; thorough tier adds coverage-guided libFuzzer campaigns over the same proptest strategy and check of section(s) {SECFUZZ[_pid]} (input bytes = the strategy's random stream via proptest's PassThrough RNG; failing inputs are decoded, shrunk with the strategy's value tree and written as ordinary replay files)"
    CHECKS[_pid] = (eng, cat, tech, text, note, ref)

def main():
    props = [json.loads(l) for l in open(os.path.join(ROOT, "properties.jsonl"))]
    checks, na = [], []
    for p in props:
        pid = p["id"]
        if pid in CHECKS:
            eng, cat, tech, text, note, ref = CHECKS[pid]
            checks.append({
                "property_id": pid,
                "quick_cmd": f"./check {pid} quick",
                "thorough_cmd": f"./check {pid} thorough",
                "evidence_file": f"/verif/evidence/{pid}.json",
                "replay_cmd_template": f"./check {pid} quick --replay {{path}}",
                "engine": eng,
                "level_claimed": {"category": cat, "text": text, "design_ref": ref},
                "level_note": note,
                "technique": tech,
            })
        else:
            na.append({"property_id": pid, "reason": NOT_YET.get(pid, "check not built yet in this session (designed in DESIGN.md §3; property-based testing applies) — not claimed until the check exists and is silent on the unchanged tree")})
    engines = {}
    for c in checks:
        engines.setdefault(c["engine"], []).append(c["property_id"])
    kinds = {
      "vh-protocol": "proptest-driven pure checks over ant-protocol / ant-evm values (round-trip, golden, truth-table oracles)",
      "vh-registers": "proptest-driven register CRDT replica simulator",
      "vh-parsers": "proptest string/byte generators against every untrusted-input parser under catch_unwind",
      "vh-bootstrap": "proptest stateful histories against the bootstrap cache store + thread stress",
      "vh-store": "StoreSim / DriverSim / FetcherSim: real NodeRecordStore, SwarmDriver and ReplicationFetcher stepped by generated schedules",
      "vh-node": "NodeSim / ClusterSim: real Node validation code over a stepped SwarmDriver with an EVM JSON-RPC stub",
      "vh-client": "ClientSim: real autonomi Client over a stepped client SwarmDriver answering from generated reply sets",
      "vh-mgmt": "FakeOS implementation of ServiceControl/RpcActions with generated fault plans; antnode subprocess for argument acceptance",
    }
    m = {
      "version": 1,
      "setup_cmd": "./setup.sh",
      "hooks": {
        "guard": "cargo feature `verif-hooks` (ant-networking, ant-node, autonomi)",
        "enable": "harness crates depend on the /repo crates by path with features=[\"verif-hooks\"]; `./check <id>` runs `cargo build --release --offline -p <harness crate>` which recompiles the changed /repo crates",
        "baseline_off_cmd": "cd /repo && cargo test --workspace --no-fail-fast --offline",
        "source_commits": HOOK_COMMITS,
        "add_only": True,
      },
      "engines": [{"name": k, "path": f"/verif/harness/{k}", "serves_properties": v, "kind_free_text": kinds.get(k, "")} for k, v in engines.items()],
      "checks": checks,
      "not_applicable": na,
      "notes": "Technique family: property-based testing and fuzzing. Exit codes: 0 held, 1 violation, 2 inconclusive (build failure / watchdog). Known findings: /verif/known_findings.json. See DESIGN.md.",
    }
    json.dump(m, open(os.path.join(ROOT, "MANIFEST.json"), "w"), indent=1)
    print("wrote MANIFEST.json:", len(checks), "checks,", len(na), "not claimed")

HOOK_COMMITS = ["1cacaa2", "a146744", "76ca8b1", "740a190", "3924a95", "14e3497"]
if __name__ == "__main__":
    main()
