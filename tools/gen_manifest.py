#!/usr/bin/env python3
"""Regenerates /verif/MANIFEST.json from the table below (single source of truth)."""
import json, os, sys
ROOT = os.path.dirname(os.path.dirname(os.path.abspath(__file__)))

# id -> (engine, category, technique, level text, level note, design ref)
CHECKS = {
 "C16": ("vh-protocol", "exploration",
         "proptest generators (boundary-biased amounts, decimal grammar + mutations) vs exact bignum reference; shrinking to replay file",
         "Generated-input search: every printed amount is re-evaluated as an exact decimal, every generated string is classified by an independent grammar+bignum oracle (must-parse-to / must-reject / either), checked_add/sub compared with exact integer arithmetic. Held-on-N-cases assurance, N in the evidence; adequate because the property is a pure function of one or two inputs with known boundary regions which the generators target.",
         "num-bigint arithmetic and the harness' own grammar classification are trusted; strings with a leading '.' or >18 fractional digits whose excess is zeros are an explicit either-zone.",
         "DESIGN.md §3 C16"),
}

NOT_YET = {
}

def main():
    props = [json.loads(l) for l in open(os.path.join(ROOT, "properties.jsonl"))]
    checks, na = [], []
    for p in props:
        pid = p["id"]
        if pid in CHECKS:
            eng, cat, tech, text, note, ref = CHECKS[pid]
            checks.append({
                "property_id": pid,
                "quick_cmd": f"./check {pid} quick",
                "thorough_cmd": f"./check {pid} thorough",
                "evidence_file": f"/verif/evidence/{pid}.json",
                "replay_cmd_template": f"./check {pid} quick --replay {{path}}",
                "engine": eng,
                "level_claimed": {"category": cat, "text": text, "design_ref": ref},
                "level_note": note,
                "technique": tech,
            })
        else:
            na.append({"property_id": pid, "reason": NOT_YET.get(pid, "check not built yet in this session (designed in DESIGN.md §3; property-based testing applies) — not claimed until the check exists and is silent on the unchanged tree")})
    engines = {}
    for c in checks:
        engines.setdefault(c["engine"], []).append(c["property_id"])
    kinds = {
      "vh-protocol": "proptest-driven pure checks over ant-protocol / ant-evm values (round-trip, golden, truth-table oracles)",
      "vh-registers": "proptest-driven register CRDT replica simulator",
      "vh-parsers": "proptest string/byte generators against every untrusted-input parser under catch_unwind",
      "vh-bootstrap": "proptest stateful histories against the bootstrap cache store + thread stress",
      "vh-store": "StoreSim / DriverSim / FetcherSim: real NodeRecordStore, SwarmDriver and ReplicationFetcher stepped by generated schedules",
      "vh-node": "NodeSim / ClusterSim: real Node validation code over a stepped SwarmDriver with an EVM JSON-RPC stub",
      "vh-client": "ClientSim: real autonomi Client over a stepped client SwarmDriver answering from generated reply sets",
      "vh-mgmt": "FakeOS implementation of ServiceControl/RpcActions with generated fault plans; antnode subprocess for argument acceptance",
    }
    m = {
      "version": 1,
      "setup_cmd": "./setup.sh",
      "hooks": {
        "guard": "cargo feature `verif-hooks` (ant-networking, ant-node, autonomi)",
        "enable": "harness crates depend on the /repo crates by path with features=[\"verif-hooks\"]; `./check <id>` runs `cargo build --release --offline -p <harness crate>` which recompiles the changed /repo crates",
        "baseline_off_cmd": "cd /repo && cargo test --workspace --no-fail-fast --offline",
        "source_commits": HOOK_COMMITS,
        "add_only": True,
      },
      "engines": [{"name": k, "path": f"/verif/harness/{k}", "serves_properties": v, "kind_free_text": kinds.get(k, "")} for k, v in engines.items()],
      "checks": checks,
      "not_applicable": na,
      "notes": "Technique family: property-based testing and fuzzing. Exit codes: 0 held, 1 violation, 2 inconclusive (build failure / watchdog). Known findings: /verif/known_findings.json. See DESIGN.md.",
    }
    json.dump(m, open(os.path.join(ROOT, "MANIFEST.json"), "w"), indent=1)
    print("wrote MANIFEST.json:", len(checks), "checks,", len(na), "not claimed")

HOOK_COMMITS = []
if __name__ == "__main__":
    main()
