#!/bin/bash
# tools/recheck_seeded.sh [ID-prefix]: re-applies every kept seeded change to /repo (one at a time), runs the
# quick check of its property and undoes it. Prints one line per change. /repo must be clean and not in use.
# Evidence written while /repo carries a change is discarded.
set -u
cd /verif
[ -z "$(git -C /repo status --short)" ] || { echo "/repo is not clean"; exit 2; }
EVBAK="$(mktemp -d)"; cp -a /verif/evidence/. "$EVBAK/"
for d in seeded/${1:-}*/; do
  n=$(basename "$d"); id=${n%%-*}
  if ! git -C /repo apply --check "$PWD/$d/patch.diff" 2>/dev/null; then echo "$n: patch no longer applies to this tree"; continue; fi
  git -C /repo apply "$PWD/$d/patch.diff"
  ./check "$id" quick > /tmp/recheck-$n.log 2>&1; rc=$?
  sig=$(grep -E "^VIOLATION" /tmp/recheck-$n.log | sed -E 's/.* sig=([^ ]+).*/\1/' | sort -u | head -3 | tr '\n' ',')
  git -C /repo checkout -- . ; git -C /repo clean -fdq -e target 2>/dev/null
  echo "$n: exit=$rc $sig"
done
cp -a "$EVBAK/." /verif/evidence/; rm -rf "$EVBAK"
