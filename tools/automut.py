#!/usr/bin/env python3
"""Dev tool (sensitivity pass, DESIGN §8.8): generate small source mutants of the anchored files.

usage: automut.py <repo-root> <out-spec.json> [max-per-file]

Writes a spec for tools/run_mutants.py: [{"name","file","old","new","checks":[..],"line":n}]. Every mutant
replaces ONE whole source line (old = the line with its newline, so the replacement is unambiguous even
when the same text occurs elsewhere: lines whose text is not unique in the file are skipped).
Operators: comparison boundary (< <= > >=), equality flip (== !=), boolean connective (&& ||), condition
forced (`if c {` -> `if false {` / `if true {`), negation dropped, +1/-1 dropped, min/max swapped,
`continue`/`return` guards disabled. Test modules, comments, logging and metrics lines are skipped.
"""
import json, re, sys, random

TARGETS = [
    # (file, checks, optional (start_regex, end_regex) restriction)
    ("ant-networking/src/record_store.rs", ["C01", "C02", "C10"]),
    ("ant-networking/src/replication_fetcher.rs", ["C08", "C09"]),
    ("ant-networking/src/event/kad.rs", ["C05"]),
    ("ant-networking/src/event/request_response.rs", ["C09"]),
    ("ant-networking/src/lib.rs", ["C05", "C11"]),
    ("ant-networking/src/cmd.rs", ["C01", "C05", "C09", "C10", "C11"]),
    ("ant-node/src/put_validation.rs", ["C03", "C04", "C07"]),
    ("ant-node/src/replication.rs", ["C09"]),
    ("ant-node/src/node.rs", ["C09", "C11"]),
    ("ant-evm/src/data_payments.rs", ["C13", "C03"]),
    ("ant-evm/src/amount.rs", ["C16", "C17"]),
    ("ant-registers/src/register.rs", ["C06"]),
    ("ant-registers/src/reg_crdt.rs", ["C06"]),
    ("ant-registers/src/register_op.rs", ["C06"]),
    ("ant-registers/src/address.rs", ["C17"]),
    ("ant-protocol/src/storage/header.rs", ["C12", "C17"]),
    ("ant-protocol/src/storage/chunks.rs", ["C12"]),
    ("ant-protocol/src/storage/scratchpad.rs", ["C07", "C15"]),
    ("ant-protocol/src/storage/transaction.rs", ["C07"]),
    ("ant-protocol/src/lib.rs", ["C11"]),
    ("ant-bootstrap/src/cache_store.rs", ["C18"]),
    ("ant-bootstrap/src/lib.rs", ["C18"]),
    ("ant-node-manager/src/add_services/mod.rs", ["C19", "C20"]),
    ("ant-node-manager/src/add_services/config.rs", ["C20", "C17"]),
    ("ant-node-manager/src/helpers.rs", ["C19", "C17"]),
    ("ant-service-management/src/node.rs", ["C20", "C19"]),
    ("autonomi/src/client/utils.rs", ["C14", "C15"]),
    ("autonomi/src/client/vault.rs", ["C15"]),
    ("autonomi/src/client/data/public.rs", ["C15", "C14"]),
    ("autonomi/src/client/data/mod.rs", ["C14"]),
    ("autonomi/src/self_encryption.rs", ["C14"]),
]
# ant-node-manager/src/lib.rs is 6700 lines, most of it tests: only the ServiceManager impl
RANGED = [("ant-node-manager/src/lib.rs", ["C19"], r"^impl<T: ServiceStateActions", r"^pub async fn status_report")]

SKIP = re.compile(r"^\s*(//|#\[|info!|debug!|trace!|warn!|error!|println!|eprintln!|use |pub use |mod |pub mod )|metrics|\.record\(|log::|tracing::|send_event|Marker::")

def ops(line):
    out = []
    code = line.split("//")[0]
    def rep(pat, new, tag, count=1):
        for m in re.finditer(pat, code):
            out.append((tag, line[:m.start()] + new + line[m.end():]))
    rep(r"(?<![<>=!-])<=(?!=)", "<", "le_to_lt")
    rep(r"(?<![<>=!-])>=(?!=)", ">", "ge_to_gt")
    rep(r"(?<=\s)<(?=\s)", "<=", "lt_to_le")
    rep(r"(?<=\s)>(?=\s)", ">=", "gt_to_ge")
    rep(r"==", "!=", "eq_to_ne")
    rep(r"!=", "==", "ne_to_eq")
    rep(r"&&", "||", "and_to_or")
    rep(r"\|\|(?=\s)", "&&", "or_to_and") if not re.search(r"\|\|\s*\{|\|\w*\|", code) else None
    rep(r"\s\+\s1\b", " + 0", "plus1_dropped")
    rep(r"\s-\s1\b", " - 0", "minus1_dropped")
    rep(r"\.min\(", ".max(", "min_to_max")
    rep(r"\.max\(", ".min(", "max_to_min")
    rep(r"\.any\(", ".all(", "any_to_all")
    rep(r"\.all\(", ".any(", "all_to_any")
    m = re.match(r"^(\s*)(\}\s*else\s+)?if\s+(?!let\b)(.+?)\s*\{\s*$", code)
    if m:
        pre = m.group(1) + (m.group(2) or "")
        out.append(("if_false", f"{pre}if false {{\n"))
        out.append(("if_true", f"{pre}if true {{\n"))
        c = m.group(3)
        if c.startswith("!") and "&&" not in c and "||" not in c:
            out.append(("negation_dropped", f"{pre}if {c[1:]} {{\n"))
        elif "&&" not in c and "||" not in c and "==" not in c and "<" not in c and ">" not in c:
            out.append(("negated", f"{pre}if !({c}) {{\n"))
    return [(t, n) for t, n in out if n != line]

def gen(root, file, checks, start=None, end=None, limit=40, rng=None):
    lines = open(f"{root}/{file}").read().splitlines(keepends=True)
    res, active = [], start is None
    counts = {}
    for l in lines:
        counts[l] = counts.get(l, 0) + 1
    for i, l in enumerate(lines):
        if re.match(r"^#\[cfg\(test\)\]", l) and i + 1 < len(lines) and re.search(r"mod \w+ \{", lines[i + 1]):
            break
        if start and re.search(start, l): active = True
        if end and active and re.search(end, l): break
        if not active or SKIP.search(l) or counts[l] > 1 or "verif" in l:
            continue
        for tag, new in ops(l):
            res.append({"name": f"{file.split('/')[-1]}:{i+1}:{tag}", "file": file, "old": l, "new": new,
                        "checks": checks, "line": i + 1})
    if len(res) > limit:
        res = rng.sample(res, limit)
        res.sort(key=lambda m: m["line"])
    return res

if __name__ == "__main__":
    root, out = sys.argv[1], sys.argv[2]
    limit = int(sys.argv[3]) if len(sys.argv) > 3 else 25
    rng = random.Random(20260924)
    spec = []
    for file, checks in TARGETS:
        spec += gen(root, file, checks, limit=limit, rng=rng)
    for file, checks, s, e in RANGED:
        spec += gen(root, file, checks, s, e, limit=limit, rng=rng)
    json.dump(spec, open(out, "w"), indent=1)
    by = {}
    for m in spec: by[m["file"]] = by.get(m["file"], 0) + 1
    print(len(spec), "mutants"); [print(" ", k, v) for k, v in by.items()]
