#!/bin/bash
# tools/seeded_tests.sh <out-dir> <ID> <worktree> <cargo -p args...>
# With the seeded change applied in its scratch worktree: run the test suites of the touched crates and
# list every test of /root/.vp/BASELINE.json's stable_pass set (for those crates) that did not pass.
set -u
OUT="$1"; ID="$2"; WT="$3"; shift 3
export CARGO_NET_OFFLINE=true
cd "$WT" || exit 2
git checkout -q -- . && git clean -fdq -e target -e .verif-harness
git apply "$OUT/$ID/patch.diff" || { echo "patch does not apply"; exit 2; }
cargo test --offline --no-fail-fast "$@" > /tmp/seeded-tests-$ID.log 2>&1
git checkout -q -- .
python3 - "$ID" "$@" <<'P'
import json, re, sys
pid = sys.argv[1]
crates = [a for a in sys.argv[2:] if not a.startswith('-')]
stable = json.load(open('/root/.vp/BASELINE.json'))['stable_pass']
ok = set(); failed = set()
for l in open(f'/tmp/seeded-tests-{pid}.log'):
    m = re.match(r'^test (\S+) \.\.\. (ok|FAILED|ignored)', l)
    if m:
        (ok if m.group(2) == 'ok' else failed).add(m.group(1).split('::')[-1])
missing = [s for s in stable if s.split('::')[0] in crates and s.split('::')[-1] not in ok]
print(f"{pid}: crates {crates}: {len(ok)} tests ok, {len(failed)} not ok; stable tests of these crates not passing: {missing}")
P
