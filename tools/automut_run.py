#!/usr/bin/env python3
"""Dev tool: run the mutants of a spec (tools/automut.py) in one lane.
usage: automut_run.py <lane-worktree> <spec.json> <first-index> <step> <results.jsonl>
For each mutant: apply, run its checks (quick tier, VERIF_SCALE from the environment, default 0.3) through
tools/mutant_run.sh until one reports a violation; restore the file. Never touches /repo or /verif."""
import json, subprocess, sys, os, time
wt, spec, first, step, res = sys.argv[1], json.load(open(sys.argv[2])), int(sys.argv[3]), int(sys.argv[4]), sys.argv[5]
scale = os.environ.get("VERIF_SCALE", "0.3")
done = set()
if os.path.exists(res):
    done = {json.loads(l)["name"] for l in open(res)}
for idx in range(first, len(spec), step):
    m = spec[idx]
    if m["name"] in done: continue
    p = os.path.join(wt, m["file"])
    s = open(p).read()
    if s.count(m["old"]) != 1:
        continue
    open(p, "w").write(s.replace(m["old"], m["new"], 1))
    r = {"name": m["name"], "file": m["file"], "line": m["line"], "old": m["old"].strip(), "new": m["new"].strip(), "runs": []}
    verdict = "survived"
    for c in m["checks"]:
        t = time.time()
        try:
            pr = subprocess.run(["/verif/tools/mutant_run.sh", wt, c, "quick"], capture_output=True, text=True,
                                env=dict(os.environ, VERIF_SCALE=scale), timeout=1500)
            code, outp, errp = pr.returncode, pr.stdout, pr.stderr
        except subprocess.TimeoutExpired:
            code, outp, errp = 3, "", "timeout"
        sigs = sorted({l.split("sig=")[1].split(" ")[0] for l in outp.splitlines() if l.startswith("VIOLATION") and "sig=" in l})
        r["runs"].append({"check": c, "exit": code, "sigs": sigs[:6], "s": round(time.time() - t)})
        if code == 1:
            verdict = "caught"; break
        if code != 0:
            build_failed = "build failed" in errp
            verdict = "build_failed" if build_failed else "inconclusive"
            r["stderr"] = errp[-600:]
            if build_failed: break
    r["verdict"] = verdict
    open(p, "w").write(s)
    with open(res, "a") as f:
        f.write(json.dumps(r) + "\n")
    print(idx, m["name"], verdict, [(x["check"], x["exit"], x["s"]) for x in r["runs"]], flush=True)
