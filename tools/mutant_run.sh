#!/bin/bash
# tools/mutant_run.sh <repo-worktree> <ID> [quick|thorough] [extra args]
# Runs a check against a scratch git worktree of /repo (e.g. one carrying a seeded change) without
# touching /repo or /verif: copies the harness next to the worktree with its path dependencies
# rewritten, builds into its own target dir, and uses a scratch VERIF_ROOT for evidence/replays.
set -eu
WT="$(cd "$1" && pwd)"; ID="$2"; shift 2
H="$WT/.verif-harness"
mkdir -p "$H"
rsync -a --delete --exclude 'target' --exclude 'target-*' /verif/harness/ "$H/harness/"
find "$H/harness" \( -name Cargo.toml -o -name '*.rs' -o -name '*.sh' \) -print0 | xargs -0 sed -i "s#/repo/#$WT/#g"
for d in known_findings.json known_findings.d regress goldens corpus check; do
  [ -e "/verif/$d" ] && rsync -a --delete "/verif/$d" "$H/" || true
done
mkdir -p "$H/evidence" "$H/replays"
exec "$H/check" "$ID" "$@"
