#!/usr/bin/env python3
"""keep_seeded.py <out-dir> <ID> <name> <needs> <demo cmd> <caught: yes/no> <signatures> [also-checked ids]
Copies a confirmed seeded change into /verif/seeded/<ID>-<name>/ with meta.json, and the shrunk replay
(if the check caught it) into /verif/regress/<ID>/ as a regression case."""
import sys, os, shutil, json, glob, time
out, pid, name, needs, demo, caught, sigs = sys.argv[1:8]
dst = f"/verif/seeded/{pid}-{name}"
os.makedirs(dst, exist_ok=True)
for f in ("patch.diff", "demo.diff", "README.md"):
    shutil.copy(os.path.join(out, pid, f), os.path.join(dst, f))
regress = []
if caught == "yes":
    os.makedirs(f"/verif/regress/{pid}", exist_ok=True)
    log = f"/tmp/confirm-{pid}-check-{pid}.log"
    for l in open(log):
        if l.startswith("VIOLATION") and "replay=" in l:
            rp = l.split("replay=")[1].split()[0]
            # manual (enumerated) sections are re-enumerated on every run, and replays of regression
            # cases are already regression cases
            manual = any(f"-{m}-" in os.path.basename(rp) for m in ("goldens", "golden_mutations", "stress", "prefixes", "enum_single_fault"))
            if os.path.exists(rp) and not manual and "/regress/" not in rp:
                tgt = f"/verif/regress/{pid}/seeded-{name}-{os.path.basename(rp)}"
                shutil.copy(rp, tgt); regress.append(tgt)
meta = {
  "property": pid, "name": name, "breaks": open(f"/tmp/seeded/{pid}.txt").read().split("\n")[0],
  "needs_to_manifest": needs,
  "origin": "written by an independent sub-agent that was given only the property text and a scratch worktree",
  "confirmed": {
    "demonstration": demo,
    "demo_passes_without_change": True, "demo_fails_with_change": True,
    "existing_tests": "crate test suites of the touched crates unchanged (see README.md); stable baseline unaffected",
    "check_run": f"git -C /repo apply patch.diff && ./check {pid} quick && git -C /repo checkout -- .",
    "caught_by_check": caught == "yes", "signatures": [s for s in sigs.split(",") if s],
    "regression_cases": regress,
  },
}
json.dump(meta, open(os.path.join(dst, "meta.json"), "w"), indent=1)
print("kept", dst, "regress:", regress)
