#!/usr/bin/env python3
"""Dev tool: apply small source mutations to a scratch worktree one at a time and run checks on each.
usage: run_mutants.py <worktree> <spec.json> ; spec = [{"name","file","old","new","checks":["C01",..]}]"""
import json, subprocess, sys, os, time
wt, spec = sys.argv[1], json.load(open(sys.argv[2]))
scale = os.environ.get("VERIF_SCALE", "0.3")
out = []
for m in spec:
    p = os.path.join(wt, m["file"])
    s = open(p).read()
    if m["old"] not in s:
        out.append((m["name"], "PATTERN-NOT-FOUND")); print(out[-1], flush=True); continue
    open(p, "w").write(s.replace(m["old"], m["new"], 1))
    for c in m["checks"]:
        t = time.time()
        r = subprocess.run(["/verif/tools/mutant_run.sh", wt, c, "quick"], capture_output=True, text=True,
                           env=dict(os.environ, VERIF_SCALE=scale))
        sigs = sorted({l.split("sig=")[1].split(" ")[0] for l in r.stdout.splitlines() if l.startswith("VIOLATION") and "sig=" in l})
        out.append((m["name"], c, "exit=%d" % r.returncode, sigs, "%.0fs" % (time.time() - t)))
        print(out[-1], flush=True)
        if r.returncode == 2:
            print(r.stderr[-1500:], flush=True)
    subprocess.run(["git", "-C", wt, "checkout", "--", "."], check=True)
print("SUMMARY"); [print(o) for o in out]
