#!/bin/bash
# tools/confirm_seeded.sh <out-dir> <ID> <worktree> "<demo command>"  [extra check ids...]
# 1. in the (clean) scratch worktree: demo passes without the change, fails with it
# 2. apply the change to /repo, run ./check <ID> quick (and extra ids), undo
set -u
OUT="$1"; ID="$2"; WT="$3"; DEMO="$4"; shift 4
export CARGO_NET_OFFLINE=true
cd "$WT" || exit 2
git checkout -q -- . && git clean -fdq -e target -e .verif-harness
git apply "$OUT/$ID/demo.diff" || { echo "demo.diff does not apply"; exit 2; }
echo "== demo on unchanged source"; (eval "$DEMO") > /tmp/confirm-$ID-a.log 2>&1; A=$?; tail -3 /tmp/confirm-$ID-a.log
git apply "$OUT/$ID/patch.diff" || { echo "patch.diff does not apply on top of demo"; exit 2; }
echo "== demo with the change"; (eval "$DEMO") > /tmp/confirm-$ID-b.log 2>&1; B=$?; tail -3 /tmp/confirm-$ID-b.log
git checkout -q -- . && git clean -fdq -e target -e .verif-harness
echo "demo exit without change: $A   with change: $B"
cd /verif
# evidence written while /repo carries the change must not replace the committed evidence
EVBAK="$(mktemp -d)"; cp -a /verif/evidence/. "$EVBAK/"
git -C /repo apply "$OUT/$ID/patch.diff" || { echo "patch does not apply to /repo"; exit 2; }
for C in "$ID" "$@"; do
  echo "== ./check $C quick with the change in /repo"
  ./check "$C" quick > /tmp/confirm-$ID-check-$C.log 2>&1; echo "exit=$?"
  grep -E "^VIOLATION" /tmp/confirm-$ID-check-$C.log | cut -c1-300 | head -4
  grep -E "^\[$C\] tier" /tmp/confirm-$ID-check-$C.log
done
git -C /repo checkout -- .
git -C /repo status --short | head -3
cp -a "$EVBAK/." /verif/evidence/; rm -rf "$EVBAK"
