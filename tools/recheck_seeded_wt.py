#!/usr/bin/env python3
"""tools/recheck_seeded_wt.py <lane-worktree> <lane> <lanes> <results.jsonl>
Re-applies every kept seeded change (seeded/<ID>-<name>/patch.diff) to a scratch worktree, one at a time, and runs
the quick tier of the change's own property against it (tools/mutant_run.sh); if that stays silent and the
meta names another check as the one that reports it, that check is run too. Never touches /repo."""
import json, os, subprocess, sys, time, re
wt, lane, lanes, res = sys.argv[1], int(sys.argv[2]), int(sys.argv[3]), sys.argv[4]
dirs = sorted(d for d in os.listdir('/verif/seeded') if os.path.isdir(f'/verif/seeded/{d}'))
if os.environ.get('RECHECK_ONLY'):
    dirs = [d for d in dirs if d.split('-')[0] in os.environ['RECHECK_ONLY'].split(',')]
done = set()
if os.path.exists(res):
    done = {json.loads(l)['name'] for l in open(res)}
for i, d in enumerate(dirs):
    if i % lanes != lane or d in done: continue
    pid = d.split('-')[0]
    patch = f'/verif/seeded/{d}/patch.diff'
    subprocess.run(['git', '-C', wt, 'checkout', '-q', '--', '.'])
    a = subprocess.run(['git', '-C', wt, 'apply', patch], capture_output=True, text=True)
    r = {'name': d, 'property': pid, 'runs': []}
    if a.returncode != 0:
        r['verdict'] = 'patch_does_not_apply'; r['err'] = a.stderr[-300:]
    else:
        checks = [pid]
        meta = json.load(open(f'/verif/seeded/{d}/meta.json'))
        other = meta.get('confirmed', {}).get('caught_by_other_check', '')
        m = re.match(r'(C\d\d)', other or '')
        if m: checks.append(m.group(1))
        verdict = 'missed'
        for c in checks:
            t = time.time()
            p = subprocess.run(['/verif/tools/mutant_run.sh', wt, c, 'quick'], capture_output=True, text=True)
            sigs = sorted({l.split('sig=')[1].split(' ')[0] for l in p.stdout.splitlines() if l.startswith('VIOLATION') and 'sig=' in l})
            r['runs'].append({'check': c, 'exit': p.returncode, 'sigs': sigs[:6], 's': round(time.time() - t)})
            if p.returncode == 1:
                verdict = 'caught' if c == pid else f'caught_by_{c}'
                break
        r['verdict'] = verdict
    subprocess.run(['git', '-C', wt, 'checkout', '-q', '--', '.'])
    open(res, 'a').write(json.dumps(r) + '\n')
    print(d, r['verdict'], [(x['check'], x['exit'], x['s']) for x in r['runs']], flush=True)
