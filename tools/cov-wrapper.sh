#!/bin/bash
# RUSTC_WRAPPER for tools/cov.sh: source-based coverage instrumentation only for the repository's crates.
rustc="$1"; shift
crate=""; prev=""
for a in "$@"; do
  if [ "$prev" = "--crate-name" ]; then crate="$a"; fi
  prev="$a"
done
case "$crate" in
  ant_*|evmlib|autonomi|antnode|antctl|vh_*) exec "$rustc" "$@" -C instrument-coverage ;;
esac
exec "$rustc" "$@"
